#!/usr/bin/env python3
"""Write seeded/<name>/meta.json from the evaluation logs left by tools/seed_eval.sh plus a short description.
usage: tools/seed_meta.py <name> <property> <change> <needs> <caught_by>"""
import glob
import json
import os
import re
import sys

name, prop, change, needs, caught = sys.argv[1:6]
d = os.path.join(os.path.dirname(os.path.dirname(os.path.abspath(__file__))), 'seeded', name)


def exit_of(p):
    m = re.findall(r'exit=(\d+)', open(p).read()) if os.path.exists(p) else []
    return int(m[-1]) if m else None


checks = {}
for p in sorted(glob.glob(os.path.join(d, 'check_*.log'))):
    c = os.path.basename(p)[6:-4]
    txt = open(p).read()
    checks[c] = {'exit': exit_of(p),
                 'lines': [ln[:300] for ln in txt.splitlines() if re.match(r'^(VIOLATION|INCONCLUSIVE|OK|KNOWN)', ln)][:6]}
meta = {
    'breaks_property': prop, 'change': change, 'needs_to_manifest': needs, 'caught_by': caught,
    'written_by': 'an independent sub-agent that saw only the property text and its own scratch worktree',
    'what_was_run': [
        'demo.py with the change in the scratch worktree (must fail) and with src/ stashed (must pass)',
        'git -C /repo apply --check patch.diff',
        'bin/check <property> --tier quick with PYTHONPATH/MPSERVICE_SRC pointing at the worktree that has the change '
        'applied (same code paths as applying it to /repo; /repo stays clean so that several evaluations can run)'],
    'demo_exit_with_change': exit_of(os.path.join(d, 'demo_with.log')),
    'demo_exit_without_change': exit_of(os.path.join(d, 'demo_without.log')),
    'checks_with_change': checks,
}
json.dump(meta, open(os.path.join(d, 'meta.json'), 'w'), indent=1)
print(name, {c: v['exit'] for c, v in checks.items()})
