#!/bin/bash
# tools/seed_eval.sh <property> <worktree> <name> [checks...]: confirm a seeded change in its scratch worktree,
# copy it to /verif/seeded/<name>/, run the property's check(s) against /repo with the change applied, undo.
set -u
P=$1; WT=$2; NAME=$3; shift 3
CHECKS=${@:-$P}
D=/verif/seeded/$NAME
mkdir -p $D
cp $WT/mutant.diff $D/patch.diff
cp $WT/demo.py $D/demo.py
[ -f $WT/NOTES.md ] && cp $WT/NOTES.md $D/NOTES.md
cd $WT
echo "== demo WITH change"; (PYTHONPATH=$WT/src timeout 120 /venv/bin/python demo.py > $D/demo_with.log 2>&1; echo "exit=$?" | tee -a $D/demo_with.log)
git -C $WT stash -q -- src
echo "== demo WITHOUT change"; (PYTHONPATH=$WT/src timeout 120 /venv/bin/python demo.py > $D/demo_without.log 2>&1; echo "exit=$?" | tee -a $D/demo_without.log)
git -C $WT stash pop -q
cd /verif
# The checks are pointed at the scratch worktree (which has the change applied) instead of patching /repo, so that
# evaluations can run while /repo stays clean: PYTHONPATH puts $WT/src before the editable install of /repo.
git -C /repo apply --check $D/patch.diff || { echo "patch does not apply to /repo"; exit 9; }
for C in $CHECKS; do
  echo "== bin/check $C --tier quick on the tree with the change (MPSERVICE_SRC=$WT/src)"
  (time env PYTHONPATH=$WT/src MPSERVICE_SRC=$WT/src MPSERVICE_REPO=$WT VERIF_EVIDENCE_DIR=$D bin/check $C --tier quick) > $D/check_$C.log 2>&1; echo "check $C exit=$?" | tee -a $D/check_$C.log
  grep -E "^(VIOLATION|INCONCLUSIVE|OK|KNOWN)" $D/check_$C.log | cut -c1-300
done
