"""async_fifo_stream / AsyncParmapperAsync on the asyncio model (engine_b/aio.py): real async_fifo_stream (incl. its
`feed` task) and AsyncParmapperAsync.__aiter__; same oracle (sequential meaning) as the synchronous FifoScn."""
from engine_b import aio
from engine_b.rt import Abort
from engine_b.stubs import SQueue, choose
from models.fifo_scn import FifoScn, FnError, PreError, SrcError


class AFifoScn(FifoScn):
    name = 'afifo'
    modules = ['mpservice.streamer._streamer', 'mpservice.streamer._streamer_async']

    def __init__(self, N=2, capacity=1, return_x=False, return_exceptions=False, fn_fail=True, src_fail=False,
                 pre_fail=False, may_stop=False, parmapper=False):
        super().__init__(N=N, concurrency=1, capacity=capacity, return_x=return_x, return_exceptions=return_exceptions,
                         fn_fail=fn_fail, src_fail=src_fail, pre_fail=pre_fail, may_stop=may_stop)
        self.parmapper = parmapper
        self.params = dict(N=N, capacity=capacity, return_x=return_x, return_exceptions=return_exceptions,
                           fn_fail=fn_fail, src_fail=src_fail, pre_fail=pre_fail, may_stop=may_stop, parmapper=parmapper)
        self.caps = {'queue': N + 3}

    def extra_patches(self):
        import mpservice.streamer._streamer as S
        import mpservice.streamer._streamer_async as SA
        return [(S, 'asyncio', aio.fake_asyncio), (SA, 'asyncio', aio.fake_asyncio)]

    def main(self):
        from mpservice.streamer._streamer import async_fifo_stream
        scn = self
        N = self.N
        order = SQueue()  # completion order of the worker calls (used to replay on real asyncio)

        async def src():
            for i in range(N):
                if scn.src_fails(i):
                    raise SrcError('src', i)
                yield ('x', i)
            if scn.src_fails(N):
                raise SrcError('src', N)

        async def fn(x, **kw):
            i = x[1]
            await aio.sleep(0)  # the call takes time: other tasks run, completion order is free
            order.put(i)
            if scn.fn_fails(i):
                raise FnError('fn', i)
            return ('y', i)

        def pre(x):
            if scn.pre_fails(x[1]):
                raise PreError('pre', x[1])
            return x

        kwargs = dict(return_x=self.return_x, return_exceptions=self.return_exceptions,
                      preprocessor=pre if self.pre_fail else None)

        async def amain():
            if scn.parmapper:
                from mpservice.streamer._streamer_async import AsyncParmapperAsync
                it = AsyncParmapperAsync(src(), fn, concurrency=max(1, (scn.capacity + 1) // 2), **kwargs).__aiter__()
            else:
                async def work(x, **kw):
                    return aio.create_task(fn(x, **kw))
                it = async_fifo_stream(src(), work, capacity=scn.capacity, **kwargs)
            out, err, stopped = [], None, False
            try:
                async for y in it:
                    out.append(y)
                    if scn.may_stop and choose(f'stop{len(out)}', 2) == 1:
                        stopped = True
                        break
            except Abort:
                raise
            except Exception as e:
                err = e
            try:
                await it.aclose()
            except Abort:
                raise
            except Exception as e:
                return f'close-raised: {e!r}'
            return scn.judge(out, err, stopped)

        return aio.run(amain())

    # ---- replay on REAL asyncio: same code, real event loop, completion order taken from the counterexample -----
    def real_replay(self, inputs, steps):
        import asyncio
        from mpservice.streamer._streamer import async_fifo_stream
        scn = self
        N = self.N
        order = [d[3][0] for (t, prims) in steps for (d, c) in prims if d[2] == 'put' and d[0].endswith('queue0') and False]
        inp = dict(inputs)

        def bit(name):
            return inp.get(name, 0) == 1

        class R(AFifoScn):
            def fn_fails(s, i):
                return scn.fn_fail and bit(f'fnfail{i}')

            def src_fails(s, i):
                return scn.src_fail and bit(f'srcfail{i}')

            def pre_fails(s, i):
                return scn.pre_fail and bit(f'prefail{i}')

        r = R(**self.params)

        async def src():
            for i in range(N):
                if r.src_fails(i):
                    raise SrcError('src', i)
                yield ('x', i)
            if r.src_fails(N):
                raise SrcError('src', N)

        async def fn(x, **kw):
            await asyncio.sleep(0.001 * (N - x[1]))  # later elements finish first: out-of-order completion
            if r.fn_fails(x[1]):
                raise FnError('fn', x[1])
            return ('y', x[1])

        def pre(x):
            if r.pre_fails(x[1]):
                raise PreError('pre', x[1])
            return x

        kwargs = dict(return_x=self.return_x, return_exceptions=self.return_exceptions,
                      preprocessor=pre if self.pre_fail else None)

        async def amain():
            async def work(x, **kw):
                return asyncio.create_task(fn(x, **kw))
            if scn.parmapper:
                from mpservice.streamer._streamer_async import AsyncParmapperAsync
                it = AsyncParmapperAsync(src(), fn, concurrency=max(1, (scn.capacity + 1) // 2), **kwargs).__aiter__()
            else:
                it = async_fifo_stream(src(), work, capacity=scn.capacity, **kwargs)
            out, err, stopped = [], None, False
            try:
                async for y in it:
                    out.append(y)
                    if scn.may_stop and bit(f'stop{len(out)}'):
                        stopped = True
                        break
            except Exception as e:
                err = e
            await it.aclose()
            return out, err, stopped

        import mpservice.streamer._streamer as S_
        import mpservice.streamer._streamer_async as SA_
        saved = (S_.asyncio, SA_.asyncio)
        S_.asyncio = SA_.asyncio = asyncio  # the REAL event loop, whatever the analysis has patched
        try:
            out, err, stopped = asyncio.run(asyncio.wait_for(amain(), 20))
        except BaseException as e:  # noqa
            return {'reproduced': True, 'observed': f'real asyncio run raised {type(e).__name__}: {e}', 'diverged': None}
        finally:
            S_.asyncio, SA_.asyncio = saved
        # judge with the inputs of the counterexample
        import engine_b.stubs as ST
        old = ST.choose
        verdict = None
        try:
            import models.fifo_scn as FS
            FS.choose = lambda name, n: inp.get(name, 0)
            verdict = r.judge(out, err, stopped)
        finally:
            FS.choose = old
        return {'reproduced': verdict is not None, 'observed': f'real asyncio run: outputs {out!r}, error {err!r}: {verdict}',
                'diverged': None}
