"""Replay of a C20 counterexample on REAL processes: a real mpservice SpawnProcess child that logs, a real parent
logging configuration, under adverse but legal timing — the child's queue feeder is held up by a record that is slow
to pickle (so anything the parent writes into the log queue meanwhile overtakes the child's records) and, for hangs,
records too big for the OS pipe buffer.  Run as `python -m models.proclog_real '<json spec>'`; prints one line
`REAL {...}`.  Nothing here configures logging at import time (the spawned child imports this module)."""
import json
import logging
import sys
import time

LEVELS = (10, 20, 30)
PARENT_LEVEL = 20
HANDLER_REC = 100


class Slow:
    """Pickles slowly: holds up the feeder thread of the process that logged it."""

    def __init__(self, s):
        self.s = s

    def __reduce__(self):
        time.sleep(self.s)
        return (Slow, (0,))


class TargetErr(Exception):
    pass


def target(spec):
    log = logging.getLogger('w')
    for n, (i, lvl) in enumerate(spec['emitted']):
        extra = {'rec_i': i}
        if n == 0 and spec.get('slow'):
            extra['slow'] = Slow(spec['slow'])
        if spec.get('pad'):
            extra['pad'] = 'x' * spec['pad']
        log.log(lvl, 'rec %d', i, extra=extra)
    if spec['end'] == 1:
        raise TargetErr('boom')
    if spec['end'] == 2:
        sys.exit(3)
    return 'value'


_P = None


def _proc_class():
    """Module-level (picklable) subclass, created lazily so that importing this module does not import mpservice."""
    global _P, P
    if _P is None:
        from mpservice.multiprocessing.context import SpawnProcess

        class P(SpawnProcess):
            handler_logs = False

            def handle_exception(self, exc):
                if self.handler_logs:
                    logging.getLogger('w').log(30, 'handler', extra={'rec_i': HANDLER_REC})

        P.__qualname__ = 'P'
        _P = P
    return _P


def __getattr__(name):   # lets pickle find `models.proclog_real.P` in the child
    if name == 'P':
        return _proc_class()
    raise AttributeError(name)


def main(spec):
    import gc
    from mpservice.multiprocessing.context import SpawnProcess

    handled = []

    class Collect(logging.Handler):
        def emit(self, record):
            handled.append(getattr(record, 'rec_i', None))

    wl = logging.getLogger('w')
    wl.setLevel(PARENT_LEVEL)
    wl.addHandler(Collect())
    wl.propagate = False

    p = _proc_class()(target=target, args=(spec,))
    p.handler_logs = bool(spec.get('handler_logs'))
    p.start()
    out = {'hang': False}
    t0 = time.time()
    try:
        if spec.get('use') == 'result':
            out['outcome'] = ['V', p.result(spec['timeout'])]
        else:
            p.join(spec['timeout'])
            out['outcome'] = ['V', 'value'] if p.done() else None
    except SystemExit as e:
        out['outcome'] = ['X', e.code]
    except TargetErr as e:
        out['outcome'] = ['E', list(e.args)]
    except BaseException as e:  # noqa
        out['outcome'] = ['?', type(e).__name__]
    if not p.done():
        out['hang'] = True
        out['outcome'] = None
        p.kill()
        SpawnProcess.__mro__[1].join(p, 5)
    out['exitcode'] = p.exitcode
    out['join_s'] = round(time.time() - t0, 2)
    if not out['hang']:
        # the process object is dropped: its finalizer ends and joins the parent's logger thread
        p._finalizer_()
    out['handled'] = handled
    print('REAL ' + json.dumps(out))
    sys.stdout.flush()
    import os
    os._exit(0)


if __name__ == '__main__':
    main(json.loads(sys.argv[1]))
