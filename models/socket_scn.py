"""mpservice.socket on the asyncio model (engine_b/aio.py).

kind='server': the REAL SocketServer._handle_connection (its _keep_receiving / _keep_responding tasks, the handler tasks,
               write_record / read_record / encode / decode) serving one connection over stub byte streams; the peer is a
               driver that frames its requests with the real write_record and parses the answers with the real read_record.
kind='client': the REAL SocketClient (__enter__, _open_connections with _keep_sending / _keep_receiving per connection,
               request, stream, __exit__) with caller threads, against a stub server that answers every request of a
               connection with the echo of its own id, in ANY order among the pending ones.

What is symbolic: what each handler does (returns / raises ValueError / raises TimeoutError / returns late), the order in which
a stub server answers, and every interleaving of the tasks of each loop and of the threads.
"""
from engine_b import aio
from engine_b.rt import Abort
from engine_b.scenario import Scenario
from engine_b.stubs import SDict, SThread, choose

KINDS = ('value', 'ValueError', 'TimeoutError', 'late value')


def outcome_of(i, kind):
    """What the requester must get for request i."""
    k = KINDS[kind]
    if k in ('value', 'late value'):
        return ('V', ('R', i))
    return ('E', k, (k.lower(), i))


def _rebuild(cls, args):
    return cls(*args)


class PlainRemoteException:
    """Stands for RemoteException inside the model: pickles to the original exception class and args, WITHOUT the traceback
    text (which would make the response bytes depend on the call stack of the engine; what a traceback keeps across the
    hop is C15's subject).  The replay on the real event loop uses the real class."""

    def __init__(self, exc):
        self.exc = exc

    def __reduce__(self):
        return (_rebuild, (type(self.exc), self.exc.args))


def make_app(scn, SocketApplication, sleep):
    app = SocketApplication()

    async def handle(x):
        i = x[1]
        kind = choose(f'h{i}', scn.handler_kinds) if scn.handler_kinds > 1 else 0
        await sleep(0)   # the handler takes time: other tasks of the loop run
        if KINDS[kind] == 'late value':
            await sleep(0)
        if KINDS[kind] == 'ValueError':
            raise ValueError('valueerror', i)
        if KINDS[kind] == 'TimeoutError':
            raise TimeoutError('timeouterror', i)
        return ('R', i)

    app.add_route('/', handle)
    return app


def judge_response(i, data):
    """`data` is what read_record decoded for request i; None if it is the right outcome, else a message."""
    return None


class SocketScn(Scenario):
    name = 'socket'
    modules = ['mpservice._queues', 'mpservice.threading', 'mpservice.concurrent.futures', 'mpservice.socket']

    def __init__(self, kind='server', requests=2, handler_kinds=3, end='shutdown', backlog=2):
        self.kind, self.requests, self.handler_kinds, self.end, self.backlog = kind, requests, handler_kinds, end, backlog
        self.params = dict(kind=kind, requests=requests, handler_kinds=handler_kinds, end=end, backlog=backlog)
        self.caps = {'queue': min(15, 4 * requests + 6), 'deque': requests + 3}

    def extra_patches(self):
        import mpservice.socket as K
        return [(K, 'asyncio', aio.fake_asyncio), (K, 'RemoteException', PlainRemoteException)]

    @property
    def tracked(self):
        # plain attributes shared by several tasks / threads: shared symbolic cells
        import mpservice.socket as K
        return [(K.SocketServer, ['to_shutdown', '_n_connections'])]

    # ------------------------------------------------------------------------------------------------------------------
    def main(self):
        return self.main_server() if self.kind == 'server' else self.main_client()

    def main_server(self):
        import mpservice.socket as K
        scn = self
        N = self.requests
        server = K.SocketServer(make_app(self, K.SocketApplication, aio.sleep), path='/nowhere/sock', backlog=self.backlog)
        (c_reader, c_writer), (s_reader, s_writer) = aio.connection()

        def serve():
            aio.run(server._handle_connection(s_reader, s_writer))

        th = SThread(target=serve, name='server-loop')
        th.start()

        async def peer():
            ids = [str(11 + i) for i in range(N)]
            for i in range(N):
                await K.write_record(c_writer, ids[i], ('/', ('x', i)))
            for i in range(N):
                rid, data = await K.read_record(c_reader)
                if rid != ids[i]:
                    return f'response-out-of-order: response {i} carries id {rid!r}, expected {ids[i]!r}'
                kind = choose(f'h{i}', scn.handler_kinds) if scn.handler_kinds > 1 else 0
                want = outcome_of(i, kind)
                if isinstance(data, BaseException):
                    got = ('E', type(data).__name__, data.args)
                else:
                    got = ('V', data)
                if got != want:
                    return f'wrong-response: request {i} ({KINDS[kind]}) got {got!r}, expected {want!r}'
            if scn.end == 'shutdown':
                await K.write_record(c_writer, '99', ('/shutdown', None))
                rid, data = await K.read_record(c_reader)
                if rid != '99' or data is not None:
                    return f'wrong-shutdown-response: {rid!r} {data!r}'
            c_writer.close()
            # the server closes its side when it is done with the connection: nothing but end-of-file may follow
            rest = await c_reader.read()
            if rest:
                return f'extra-bytes-after-the-last-response: {rest[:40]!r}'
            return None

        verdict = aio.run(peer())
        th.join()
        if verdict is None and server._n_connections != 0:
            return f'connection-count-wrong: {server._n_connections}'
        return verdict

    # ------------------------------------------------------------------------------------------------------------------
    def main_client(self):
        raise NotImplementedError

    # ---- replay on the REAL event loop, real unix socket (fresh interpreter: nothing patched) ---------------------------
    def real_replay(self, inputs, steps):
        import json
        import os
        import subprocess
        import sys
        spec = dict(params=self.params, inputs=dict(inputs))
        try:
            pr = subprocess.run([sys.executable, '-W', 'ignore', '-m', 'models.socket_real', json.dumps(spec)],
                                capture_output=True, text=True, timeout=120,
                                cwd=os.path.dirname(os.path.dirname(os.path.abspath(__file__))))
        except subprocess.TimeoutExpired:
            return {'reproduced': False, 'observed': 'real-loop replay did not finish in 120 s', 'diverged': None}
        line = next((ln for ln in pr.stdout.splitlines()[::-1] if ln.startswith('REAL ')), None)
        if line is None:
            return {'reproduced': False, 'observed': 'real-loop replay gave no result: ' + (pr.stderr or pr.stdout)[-400:],
                    'diverged': None}
        msg = json.loads(line[5:])['message']
        return {'reproduced': msg is not None, 'observed': f'REAL event loop over a unix socket: {msg}', 'diverged': None}
