"""EnsembleServlet and SwitchServlet: the REAL start/_enqueue/_dequeue/stop threads between stub member servlets.

The members follow the servlet contract (one `(uid, y)` per `(uid, x)`, `y` computed from `x` alone or an exception;
the end marker is passed on) — that contract is what the ThreadServlet/Worker checks establish.  What is symbolic:
which member fails for which request, which member the switch selects, whether a request arrives already failed
(an upstream exception value), and every interleaving of the feeder, the collector, the members and the caller.
A member with two worker threads answers out of order.
"""
from engine_b.rt import Abort
from engine_b.scenario import Scenario
from engine_b.stubs import SCell, SDict, SThread, choose
from models.server_scn import STQueue


class MemberErr(Exception):
    pass


class UpstreamErr(Exception):
    pass


class StartErr(Exception):
    pass


class Member:
    """A member servlet by contract; `threads` workers share its queues."""
    input_queue_type = 'thread'
    output_queue_type = 'thread'
    workers = ()

    def __init__(self, scn, k, threads=1):
        self.scn, self.k, self.threads = scn, k, threads

    def start(self, q_in, q_out):
        if self.scn.start_fail and choose(f'sfail{self.scn.cycle}_{self.k}', 2) == 1:
            raise StartErr('start', self.k)   # a worker of this member failed to initialise: nothing of it is left running
        self._q_in, self._q_out = q_in, q_out
        self._ts = [SThread(target=self._work, args=(j,), name=f'member{self.k}_{j}') for j in range(self.threads)]
        for t in self._ts:
            t.start()

    def _work(self, j):
        while True:
            z = self._q_in.get()
            if z is None:
                # like Worker.run: re-broadcast the end marker to a fellow worker and pass it downstream
                self._q_in.put(None)
                self._q_out.put(None)
                return
            uid, x = z
            i = x[1]
            if self.scn.member_fail and choose(f'mfail{self.k}_{i}', 2) == 1:
                try:
                    raise MemberErr('member', self.k, i)
                except MemberErr as e:
                    from mpservice.multiprocessing.remote_exception import RemoteException
                    self._q_out.put((uid, RemoteException(e)))
            else:
                self._q_out.put((uid, ('R', self.k, x)))

    def stop(self):
        self._q_in.put(None)
        for t in self._ts:
            t.join()


class YList(list):
    """`z['y']` of a catalog entry: a list whose element writes go through to the shared cells."""
    _as_plain_value = True   # interned and fingerprinted by its content, like a plain list

    def __init__(self, cat, uid, vals):
        super().__init__(vals)
        self._cat, self._uid = cat, uid

    def __setitem__(self, idx, v):
        super().__setitem__(idx, v)
        self._cat.ycell[(self._uid, idx)].set(v)

    def __reduce__(self):
        return (list, (list(self),))


class ZDict(dict):
    """A catalog entry {'y': [...], 'n': k} read from / written through to the shared cells."""
    _as_plain_value = True

    def __init__(self, cat, uid):
        self._cat, self._uid = cat, uid
        super().__init__(y=YList(cat, uid, [cat.ycell[(uid, k)].get() for k in range(cat.nn)]), n=cat.ncell[uid].get())

    def __setitem__(self, k, v):
        super().__setitem__(k, v)
        if k == 'n':
            self._cat.ncell[self._uid].set(v)

    def __reduce__(self):
        return (dict, (dict(self),))


class Catalog:
    """EnsembleServlet._uid_to_results as shared symbolic state: presence in a tracked dict, the partial results and
    the counter of every entry in cells (the real entry is one mutable dict object shared by the two threads)."""

    def __init__(self, uids, nn):
        self.nn = nn
        self.present = SDict('catalog')
        self.ycell = {(u, k): SCell(None, name=f'cat.{u}.y{k}') for u in uids for k in range(nn)}
        self.ncell = {u: SCell(0, name=f'cat.{u}.n') for u in uids}

    def __setitem__(self, uid, z):
        for k in range(self.nn):
            self.ycell[(uid, k)].set(z['y'][k])
        self.ncell[uid].set(z['n'])
        self.present[uid] = 1

    def get(self, uid, default=None):
        if uid in self.present:
            return ZDict(self, uid)
        return default

    def pop(self, uid, *d):
        z = self.get(uid)
        self.present.pop(uid, *d)
        return z

    def __len__(self):
        return len(self.present)


class EnsembleScn(Scenario):
    name = 'ensemble'
    modules = ['mpservice._queues', 'mpservice.threading', 'mpservice.mpserver._servlet']

    def __init__(self, kind='ensemble', members=2, requests=2, fail_fast=True, member_fail=True, upstream_fail=False,
                 member_threads=1, cycles=1, start_fail=False):
        self.kind, self.members, self.requests = kind, members, requests
        self.fail_fast, self.member_fail, self.upstream_fail = fail_fast, member_fail, upstream_fail
        self.member_threads, self.cycles = member_threads, cycles
        self.start_fail, self.cycle = start_fail, 0
        self.params = dict(kind=kind, members=members, requests=requests, fail_fast=fail_fast, member_fail=member_fail,
                           upstream_fail=upstream_fail, member_threads=member_threads, cycles=cycles, start_fail=start_fail)
        self.caps = {'queue': requests * members + members + 4}

    def extra_patches(self):
        import mpservice.mpserver._servlet as V
        return [(V, '_SimpleThreadQueue', STQueue)]

    def main(self):
        from mpservice.mpserver._servlet import EnsembleServlet, SwitchServlet
        from mpservice.multiprocessing.remote_exception import EnsembleError, RemoteException
        scn = self
        M, N = self.members, self.requests
        uids = [101 + i for i in range(N)]
        members = [Member(self, k, self.member_threads if k == 0 else 1) for k in range(M)]
        if self.kind == 'ensemble':
            cat = Catalog(uids, M)

            class Ens(EnsembleServlet):
                def _reset(self):
                    super()._reset()
                    self._uid_to_results = cat

            servlet = Ens(*members, fail_fast=self.fail_fast)
        else:
            class Sw(SwitchServlet):
                def switch(self, x):
                    if isinstance(x, (BaseException, RemoteException)):
                        raise AssertionError(f'switch-got-an-exception-value: {x!r}')
                    return choose(f'sw{x[1]}', M)

            servlet = Sw(*members)

        def upstream(i):
            return scn.upstream_fail and choose(f'up{i}', 2) == 1

        def mfail(k, i):
            return scn.member_fail and choose(f'mfail{k}_{i}', 2) == 1

        def check(i, y):
            """None if `y` is the right outcome of request i, else a message."""
            x = ('x', i)
            if upstream(i):
                ok = isinstance(y, RemoteException) and isinstance(y.exc, UpstreamErr) and y.exc.args == ('up', i)
                return None if ok else f'request {i} arrived failed upstream but got {y!r}'
            if scn.kind == 'switch':
                k = choose(f'sw{i}', M)
                if mfail(k, i):
                    ok = isinstance(y, RemoteException) and isinstance(y.exc, MemberErr) and y.exc.args == ('member', k, i)
                else:
                    ok = y == ('R', k, x)
                return None if ok else f'request {i} was routed to member {k} but got {y!r}'
            fails = [mfail(k, i) for k in range(M)]
            if (scn.fail_fast and any(fails)) or all(fails):
                if not (isinstance(y, RemoteException) and isinstance(y.exc, EnsembleError)):
                    return f'request {i}: members failing {fails}, fail_fast={scn.fail_fast}: expected EnsembleError, got {y!r}'
                res = y.exc.args[1]['y']
                for k in range(M):
                    v = res[k]
                    if v is None and scn.fail_fast:
                        continue   # not collected yet when the first failure arrived
                    if fails[k]:
                        if not (isinstance(v, RemoteException) and v.exc.args == ('member', k, i)):
                            return f'request {i}: EnsembleError entry {k} is {v!r}, expected member {k}\'s error'
                    elif v != ('R', k, x):
                        return f'request {i}: EnsembleError entry {k} is {v!r}, expected member {k}\'s result'
                if not any(isinstance(v, RemoteException) for v in res):
                    return f'request {i}: EnsembleError without a failed member: {res!r}'
                return None
            if not isinstance(y, list) or len(y) != M:
                return f'request {i}: expected the list of {M} member results, got {y!r}'
            for k in range(M):
                if fails[k]:
                    if not (isinstance(y[k], RemoteException) and y[k].exc.args == ('member', k, i)):
                        return f'request {i}: entry {k} is {y[k]!r}, expected member {k}\'s error'
                elif y[k] != ('R', k, x):
                    return f'request {i}: entry {k} is {y[k]!r}, expected member {k}\'s result for this request'
            return None

        for cyc in range(self.cycles):
            self.cycle = cyc
            if self.cycles > 1:
                from engine_b.stubs import _rt
                _rt().current_ctx().extra['ns'] = f'c{cyc}'   # names of this cycle's objects do not depend on the previous one
            qin, qout = STQueue(), STQueue()
            try:
                servlet.start(qin, qout)
            except Abort:
                raise
            except StartErr as e:
                # all-or-nothing: the error is the first failing member's; the members started before it have been stopped
                # (a member thread left behind is a deadlock / leftover state), and the servlet can be started again
                first = next((k for k in range(M) if scn.start_fail and choose(f'sfail{cyc}_{k}', 2) == 1), None)
                if first is None or e.args != ('start', first):
                    return f'start-raised-wrong-error: {e!r}, first failing member {first}'
                continue
            if scn.start_fail and any(choose(f'sfail{cyc}_{k}', 2) == 1 for k in range(M)):
                return 'start-succeeded-although-a-member-failed'
            for i in range(N):
                if upstream(i):
                    try:
                        raise UpstreamErr('up', i)
                    except UpstreamErr as e:
                        qin.put((uids[i], RemoteException(e)))
                else:
                    qin.put((uids[i], ('x', i)))
            seen = {}
            for _ in range(N):
                v = qout.get()
                if v is None:
                    return 'end-marker-before-all-results'
                uid, y = v
                if uid not in uids:
                    return f'unknown-request-id: {uid!r}'
                i = uids.index(uid)
                if i in seen:
                    return f'duplicate-outcome: request {i} got a second outcome {y!r}'
                seen[i] = True
                msg = check(i, y)
                if msg:
                    return 'wrong-outcome: ' + msg
            servlet.stop()
            # after stop only end markers may be left: every request had exactly one outcome
            while not qout.empty():
                v = qout.get()
                if v is not None:
                    return f'extra-outcome: {v!r} after all {N} requests were answered'
            if self.kind == 'ensemble' and len(cat):
                return 'catalog-entry-leaked'
        return None
