"""mpservice.multiprocessing.context.SpawnProcess — log forwarding from the child to the parent (C20).

REAL code: SpawnProcess.__init__, start, run, _run_logger, _collect_result, _finalize, join, result, done,
_bootstrap.  The child process is a thread of the model that runs the real `run()` on its own copy of the
process object; multiprocessing.Queue / Pipe / Finalize / BaseProcess and `logging` follow the contracts in
engine_b/mpstubs.py.  What is symbolic: how many records the child emits and at which levels, how its target
ends (returns / raises / sys.exit(3)), and every interleaving of child, its queue feeder, the parent's logger
and collector threads, the parent's feeder and the caller.
"""
import sys

from engine_b import mpstubs as M
from engine_b.rt import Abort
from engine_b.scenario import Scenario
from engine_b.stubs import SDeque, choose

PARENT_LEVEL = 20
LEVELS = (10, 20, 30)  # below / at / above the parent's effective level


class TargetErr(Exception):
    pass


def emitted(scn):
    """The records the child emits, from the symbolic inputs: [(index, level)]."""
    n = choose('nrec', scn.records + 1) if scn.sym_count else scn.records
    out = []
    for i in range(n):
        lvl = LEVELS[choose(f'lvl{i}', len(LEVELS))] if scn.sym_levels else 20
        out.append((i, lvl))
    return out


class ProcLogScn(Scenario):
    name = 'proclog'
    modules = ['mpservice.threading', 'mpservice.multiprocessing.context']

    def __init__(self, records=2, pipe=1, endings=3, sym_levels=False, sym_count=True, handler_logs=False,
                 use='join'):
        self.records, self.pipe, self.endings = records, pipe, endings
        self.sym_levels, self.sym_count, self.handler_logs, self.use = sym_levels, sym_count, handler_logs, use
        self.params = dict(records=records, pipe=pipe, endings=endings, sym_levels=sym_levels, sym_count=sym_count,
                           handler_logs=handler_logs, use=use)
        self.caps = {'mp_pipe': pipe, 'queue': records + 6, 'deque': records + 3}

    def extra_patches(self):
        import mpservice.multiprocessing.context as C
        return [(C, 'multiprocessing', M.fake_multiprocessing), (C, 'MP_SPAWN_CTX', M.FAKE_CTX),
                (C, 'logging', C.logging),  # replaced in main() (per run); restored here
                (C.SpawnProcess, '__bases__', (M.SProcBase,))]

    def main(self):
        import mpservice.multiprocessing.context as C
        scn = self
        handled = SDeque()
        fake_logging = M.FakeLogging(PARENT_LEVEL, handled)
        C.logging = fake_logging
        HANDLER_REC = 100

        def target():
            log = fake_logging.getLogger()
            for i, lvl in emitted(scn):
                log.log(lvl, i)
            end = choose('end', scn.endings) if scn.endings > 1 else 0
            if end == 1:
                raise TargetErr('boom')
            if end == 2:
                sys.exit(3)
            return 'value'

        class P(C.SpawnProcess):
            if scn.handler_logs:
                def handle_exception(self, exc):
                    # "Subclass can customize this to log more info" — these records count as well
                    fake_logging.getLogger().log(30, HANDLER_REC)
            else:
                def handle_exception(self, exc):
                    pass

        p = P(target=target)
        p.start()
        end = choose('end', scn.endings) if scn.endings > 1 else 0
        outcome = None
        try:
            if self.use == 'result':
                outcome = ('V', p.result())
            else:
                p.join()
                outcome = ('V', 'value')
        except Abort:
            raise
        except TargetErr as e:
            outcome = ('E', e.args)
        except SystemExit as e:
            outcome = ('X', e.code)
        want_outcome = [('V', 'value'), ('E', ('boom',)), ('X', 3)][end]
        if outcome != want_outcome:
            return f'outcome-wrong: {outcome!r}, expected {want_outcome!r}'
        if p.exitcode != [0, 1, 3][end]:
            return f'exitcode-wrong: {p.exitcode!r} for ending {end}'
        # the process object is dropped: its finalizer runs (ends and joins the parent's logger thread)
        p._finalizer_()
        # ... and eventually the parent exits: its own feeder is flushed and joined
        p._logger_queue_._at_process_exit()
        want = [i for i, lvl in emitted(scn) if lvl >= PARENT_LEVEL]
        if scn.handler_logs and end != 0:
            want.append(HANDLER_REC)
        got = []
        while len(handled):
            got.append(handled.popleft())
        if got != want:
            lost = [i for i in want if i not in got]
            if lost and [i for i in got if i in want] == [i for i in want if i in got] and len(set(got)) == len(got) \
                    and all(i in want for i in got):
                return f'records-lost: parent handled {got}, child emitted (at or above the parent level) {want}'
            return f'records-wrong: parent handled {got}, expected {want}'
        return None

    # -- replay on real processes ----------------------------------------------------------------
    def real_replay(self, inputs, steps, kind=None):
        """Run a real child process with the counterexample's inputs under adverse timing and judge with the same oracle."""
        import json
        import os
        import subprocess
        inp = dict(inputs)
        n = inp.get('nrec', 0) if self.sym_count else self.records
        em = [(i, LEVELS[inp.get(f'lvl{i}', 0)] if self.sym_levels else 20) for i in range(n)]
        end = inp.get('end', 0) if self.endings > 1 else 0
        results = []
        # two timings: the end marker overtaking the child's records (held-up feeder), once with records that fit the
        # pipe buffer (loss) and once with records that do not (the child cannot exit)
        for pad in (0, 70000):
            spec = dict(emitted=em, end=end, slow=0.6, pad=pad, handler_logs=self.handler_logs, use=self.use, timeout=8)
            env = dict(os.environ)
            try:
                pr = subprocess.run([sys.executable, '-m', 'models.proclog_real', json.dumps(spec)], env=env,
                                    capture_output=True, text=True, timeout=60,
                                    cwd=os.path.dirname(os.path.dirname(os.path.abspath(__file__))))
            except subprocess.TimeoutExpired:
                results.append((pad, 'real run did not finish in 60 s'))
                continue
            line = next((ln for ln in pr.stdout.splitlines()[::-1] if ln.startswith('REAL ')), None)
            if line is None:
                return {'reproduced': False, 'observed': 'real-process run gave no result: ' + (pr.stderr or pr.stdout)[-400:],
                        'diverged': None}
            r = json.loads(line[5:])
            want = [i for i, lvl in em if lvl >= PARENT_LEVEL] + ([100] if self.handler_logs and end != 0 else [])
            want_outcome = [['V', 'value'], ['E', ['boom']], ['X', 3]][end]
            if r['hang']:
                results.append((pad, f"join()/result() did not return within {spec['timeout']} s: the child could not exit "
                                     f"(records of {pad} bytes; parent handled {r['handled']} of {want})"))
            elif r['handled'] != want:
                results.append((pad, f"parent handled {r['handled']}, child emitted (at or above the parent level) {want}"))
            elif r['outcome'] != want_outcome or r['exitcode'] != [0, 1, 3][end]:
                results.append((pad, f"outcome {r['outcome']} exitcode {r['exitcode']}, expected {want_outcome}"))
        if results:
            return {'reproduced': True, 'diverged': None,
                    'observed': 'REAL processes (child feeder held up by a slow-to-pickle record): ' + ' | '.join(
                        f'[record padding {p_}] {m}' for p_, m in results)}
        return {'reproduced': False, 'diverged': None,
                'observed': 'the violation did not show on real processes under the forced timing'}
