"""Stream(...).buffer(n): real Buffer.{_start,_run_worker,_finalize,__iter__} + SingleLane + Thread.run/join."""
from engine_b.scenario import Scenario
from engine_b.rt import Abort
from engine_b.stubs import choose, SCounter


class SrcError(Exception):
    pass


class BufferScn(Scenario):
    name = 'buffer'
    modules = ['mpservice._queues', 'mpservice.threading', 'mpservice.streamer._streamer']

    def __init__(self, N=2, maxsize=1, fail_kinds=1, lookahead=False, may_fail=True, may_stop=True, lazy_take=None):
        self.N, self.maxsize, self.fail_kinds = N, maxsize, fail_kinds
        self.lookahead = lookahead
        self.may_fail, self.may_stop = may_fail, may_stop
        self.lazy_take = lazy_take
        self.halt = lookahead
        self.params = dict(N=N, maxsize=maxsize, fail_kinds=fail_kinds, lookahead=lookahead,
                           may_fail=may_fail, may_stop=may_stop, lazy_take=lazy_take)
        self.caps = {'deque': N + 3}

    def main(self):
        from mpservice.streamer._streamer import Buffer
        from mpservice._common import StopRequested
        N = self.N
        pulled = SCounter('pulled') if self.lookahead else None
        handed = SCounter('handed') if self.lookahead else None
        self._ctrs = (pulled, handed)

        def fails(i):
            return self.may_fail and choose(f'fail{i}', 2) == 1

        def boom(i):
            kind = choose('failkind', self.fail_kinds) if self.fail_kinds > 1 else 0
            return SrcError('src', i) if kind == 0 else StopRequested()

        def src():
            for i in range(N):
                if fails(i):
                    raise boom(i)
                if pulled is not None:
                    pulled.inc()
                yield ('x', i)
            if fails(N):
                raise boom(N)

        buf = Buffer(src(), self.maxsize)
        out = []
        err = None
        stopped = False
        it = iter(buf)
        try:
            for y in it:
                out.append(y)
                if handed is not None:
                    handed.inc()
                if self.lazy_take is not None and len(out) >= self.lazy_take:
                    stopped = True
                    break
                if self.may_stop and choose(f'stop{len(out)}', 2) == 1:
                    stopped = True
                    break
        except Abort:
            raise
        except BaseException as e:  # the library's StopRequested is a BaseException
            err = e
        try:
            it.close()
        except Exception as e:
            return f'close raised {e!r}'
        # oracle: outputs are a prefix of the source; the first failure arrives exactly when the
        # consumer reaches it -------------------------------------------------------------------
        if out != [('x', i) for i in range(len(out))]:
            return f'outputs {out} are not a source prefix'
        if stopped:
            if err is not None:
                return f'error {err!r} after early stop'
        else:
            k = len(out)
            if any(fails(i) for i in range(k)):
                return f'element delivered past a source failure: {out}'
            if fails(k):
                kind = choose('failkind', self.fail_kinds) if self.fail_kinds > 1 else 0
                if kind == 0:
                    if not isinstance(err, SrcError):
                        return f'source-failure-not-delivered: at {k} err={err!r}'
                    if err.args != ('src', k):
                        return f'wrong-failure-delivered: {err!r}'
                elif not isinstance(err, StopRequested):
                    return f'stop-request-not-delivered: at {k} err={err!r}'
            else:
                if err is not None:
                    return f'unexpected error {err!r}'
                if k != N:
                    return f'stream ended early with {out}'
        w = getattr(buf, '_worker', None)
        if w is not None and w.is_alive():
            return 'worker thread still alive after close'
        return None

    def invariant(self, env, S):
        if not self.lookahead:
            return None
        import z3
        return z3.ULE(S.get('pulled.n') - S.get('handed.n'), self.maxsize + 2)

    def concrete_snapshot(self):
        if not self.lookahead:
            return None
        return {'pulled': self._ctrs[0]._real, 'handed': self._ctrs[1]._real}

    def concrete_invariant(self, snap):
        return snap['pulled'] - snap['handed'] <= self.maxsize + 2
