"""fifo_stream / Parmapper: real fifo_stream (incl. nested feed), Parmapper.__iter__, SingleLane,
mpservice Thread.run/join and mpservice's executor subclass; the pool itself is the executor stub."""
from engine_b.scenario import Scenario
from engine_b.stubs import choose, SCounter


class SrcError(Exception):
    pass


class FnError(Exception):
    pass


class PreError(Exception):
    pass


class FifoScn(Scenario):
    name = 'fifo'
    modules = ['mpservice._queues', 'mpservice.threading', 'mpservice.concurrent.futures',
               'mpservice.streamer._streamer']

    def __init__(self, N=2, concurrency=1, capacity=None, return_x=False, return_exceptions=False,
                 fn_fail=True, src_fail=False, pre_fail=False, may_stop=False, observe=False, lazy_take=None,
                 odd_values=False):
        self.N, self.concurrency, self.capacity = N, concurrency, capacity
        # odd_values: every element is a symbolic choice among values that code likes to confuse with 'nothing'
        self.odd_values = odd_values
        if odd_values:
            fn_fail = src_fail = pre_fail = False
        self.return_x, self.return_exceptions = return_x, return_exceptions
        self.fn_fail, self.src_fail, self.pre_fail, self.may_stop = fn_fail, src_fail, pre_fail, may_stop
        self.observe = observe
        self.lazy_take = lazy_take
        self.halt = observe
        self.params = dict(N=N, concurrency=concurrency, capacity=capacity, return_x=return_x,
                           return_exceptions=return_exceptions, fn_fail=fn_fail, src_fail=src_fail,
                           pre_fail=pre_fail, may_stop=may_stop, observe=observe, lazy_take=lazy_take)
        if odd_values:
            self.params['odd_values'] = True
        cap = capacity if capacity is not None else 2 * concurrency
        self.cap = cap
        self.caps = {'deque': N + 2, 'pool_jobs': N + 1, 'pool_workers': concurrency}

    # symbolic environment ------------------------------------------------------------------
    ODD = (None, 0, False, '', ())

    def value(self, i):
        """The i-th input element."""
        if not self.odd_values:
            return ('x', i)
        k = choose(f'val{i}', len(self.ODD) + 1)
        return ('x', i) if k == 0 else self.ODD[k - 1]

    def fn_fails(self, i):
        return self.fn_fail and choose(f'fnfail{i}', 2) == 1

    def src_fails(self, i):
        return self.src_fail and choose(f'srcfail{i}', 2) == 1

    def pre_fails(self, i):
        return self.pre_fail and choose(f'prefail{i}', 2) == 1

    def main(self):
        from mpservice.streamer._streamer import Parmapper, fifo_stream
        from mpservice.concurrent.futures import ThreadPoolExecutor
        N = self.N
        scn = self
        obs = self.observe
        pulled = SCounter('pulled') if obs else None
        handed = SCounter('handed') if obs else None
        running = SCounter('running') if obs else None
        self._ctrs = (pulled, handed, running)

        def src():
            for i in range(N):
                if scn.src_fails(i):
                    raise SrcError('src', i)
                if obs:
                    pulled.inc()
                yield scn.value(i)
            if scn.src_fails(N):
                raise SrcError('src', N)

        def fn(x, **kw):
            if scn.odd_values:
                return ('y', x)
            i = x[1]
            if obs:
                running.inc()
            try:
                if scn.fn_fails(i):
                    raise FnError('fn', i)
                return ('y', i)
            finally:
                if obs:
                    running.dec()

        def pre(x):
            if scn.pre_fails(x[1]):
                raise PreError('pre', x[1])
            return x

        kwargs = dict(return_x=self.return_x, return_exceptions=self.return_exceptions,
                      preprocessor=pre if self.pre_fail else None)
        if self.capacity is None:
            stream = Parmapper(src(), fn, executor='thread', concurrency=self.concurrency, **kwargs)
            it = iter(stream)
            pool = None
        else:
            pool = ThreadPoolExecutor(self.concurrency)

            def work(x, **kw):
                return pool.submit(fn, x, loud_exception=False, **kw)

            it = fifo_stream(src(), work, capacity=self.capacity, **kwargs)
        out = []
        err = None
        stopped = False
        try:
            for y in it:
                out.append(y)
                if obs:
                    handed.inc()
                if self.lazy_take is not None and len(out) >= self.lazy_take:
                    stopped = True   # a lazy consumer: takes a few outputs and walks away
                    break
                if self.may_stop and choose(f'stop{len(out)}', 2) == 1:
                    stopped = True
                    break
        except Exception as e:
            err = e
        try:
            it.close()
            if pool is not None:
                pool.shutdown()
        except Exception as e:
            return f'close raised {e!r}'
        return self.judge(out, err, stopped)

    # oracle: the documented sequential meaning -----------------------------------------------
    def judge(self, out, err, stopped):
        N = self.N
        k = len(out)
        if self.odd_values:
            want = [((self.value(i), ('y', self.value(i))) if self.return_x else ('y', self.value(i))) for i in range(N)]
            if stopped:
                want = want[:k]
            # values are compared with their types: 0, False and '' are different elements
            same = len(out) == len(want) and all(repr(a) == repr(b) for a, b in zip(out, want))
            if err is not None or not same:
                return f'outputs {out!r} (error {err!r}) for inputs {[self.value(i) for i in range(N)]!r}: expected {want!r}'
            return None
        for i in range(k):
            if self.src_fails(i):
                return f'output {i} delivered although the source failed at {i}: {out}'
            if self.pre_fails(i):
                want, bad = ('E', 'pre', i), True
            elif self.fn_fails(i):
                want, bad = ('E', 'fn', i), True
            else:
                want, bad = ('y', i), False
            if bad and not self.return_exceptions:
                return f'output {i} delivered although element {i} failed and return_exceptions is off: {out}'
            y = out[i]
            if self.return_x:
                if not (isinstance(y, tuple) and len(y) == 2 and y[0] == ('x', i)):
                    return f'output {i} is not paired with its own input: {y!r}'
                y = y[1]
            got = ('E',) + tuple(y.args) if isinstance(y, Exception) else y
            if got != want:
                return f'output {i} is {got!r}, expected {want!r}'
        if stopped:
            if err is not None:
                return f'error {err!r} after early stop'
            return None
        # the stream ended at k: why?
        if k < N and not self.src_fails(k) and not self.return_exceptions and (self.pre_fails(k) or self.fn_fails(k)):
            want = ('pre', k) if self.pre_fails(k) else ('fn', k)
            if not isinstance(err, Exception) or tuple(err.args) != want:
                return f'failure of element {k} not delivered: err={err!r}'
            return None
        if k <= N and self.src_fails(k):
            if not isinstance(err, SrcError) or tuple(err.args) != ('src', k):
                return f'source failure at {k} not delivered: err={err!r}'
            return None
        if err is not None:
            return f'unexpected error {err!r}'
        if k != N:
            return f'stream ended after {k} of {N} outputs'
        return None

    def invariant(self, env, S):
        if not self.observe:
            return None
        import z3
        return z3.And(z3.ULE(S.get('pulled.n') - S.get('handed.n'), self.cap + 3),
                      z3.ULE(S.get('running.n'), self.concurrency))

    def concrete_snapshot(self):
        if not self.observe:
            return None
        p, h, r = self._ctrs
        return {'pulled': p._real, 'handed': h._real, 'running': r._real}

    def concrete_invariant(self, snap):
        return snap['pulled'] - snap['handed'] <= self.cap + 3 and snap['running'] <= self.concurrency
