"""mpservice.queue.IterableQueue / ResponsiveQueue over thread queues: real put, put_end, __next__,
__iter__, renew, ResponsiveQueue.get/put/_get_put; suppliers and consumers are threads."""
from engine_b.rt import Abort
from engine_b.scenario import Scenario
from engine_b.stubs import SCell, SEvent, SQueue, SThread, choose


class IterQScn(Scenario):
    name = 'iterq'
    modules = ['mpservice.queue']

    def __init__(self, suppliers=1, consumers=2, items=1, rounds=1, stop=False, maxsize=0, abandon=False):
        self.suppliers, self.consumers, self.items, self.rounds = suppliers, consumers, items, rounds
        self.stop, self.maxsize = stop, maxsize
        self.abandon = abandon  # suppliers never call put_end; only the stop request can end the consumers
        self.params = dict(suppliers=suppliers, consumers=consumers, items=items, rounds=rounds, stop=stop,
                           maxsize=maxsize, abandon=abandon)
        self.caps = {'queue': suppliers * items + suppliers + consumers + 2}

    def extra_patches(self):
        import types
        import mpservice.queue as Q

        class _NoSimpleQueue:
            pass

        # with `to_stop`, IterableQueue keeps its tokens in multiprocessing.Queue objects even between
        # threads; they are modelled by the same bounded-FIFO contract (their full()/qsize() are exact here)
        fake_mp = types.SimpleNamespace(Queue=SQueue, SimpleQueue=_NoSimpleQueue)
        return [(Q, 'multiprocessing', fake_mp)]

    def main(self):
        from mpservice.queue import IterableQueue
        from mpservice._common import StopRequested
        scn = self
        to_stop = SEvent() if self.stop else None
        q = IterableQueue(SQueue(self.maxsize), num_suppliers=self.suppliers, to_stop=to_stop)
        verdict = None
        for rnd in range(self.rounds):
            got = [SCell(None) for _ in range(self.consumers)]

            def supplier(i):
                try:
                    for j in range(scn.items):
                        q.put(('x', rnd, i, j))
                    if not scn.abandon:
                        q.put_end()
                except Abort:
                    raise
                except StopRequested:
                    if not scn.stop:
                        raise

            def consumer(i):
                out = []
                try:
                    for z in q:
                        out.append(z)
                except Abort:
                    raise
                except StopRequested:
                    if not scn.stop:
                        raise
                    out.append('STOPPED')
                got[i].set(tuple(out))

            ths = [SThread(target=supplier, args=(i,), name=f's{i}') for i in range(self.suppliers)]
            ths += [SThread(target=consumer, args=(i,), name=f'c{i}') for i in range(self.consumers)]
            for t in ths:
                t.start()
            if self.stop and (self.abandon or choose('do_stop', 2) == 1):
                to_stop.set()
            for t in ths:
                t.join()
            received = []
            stopped = False
            for c in got:
                v = c.get()
                if v is None:
                    return f'consumer-no-result: round {rnd}'
                for z in v:
                    if z == 'STOPPED':
                        stopped = True
                    else:
                        received.append(z)
            want = sorted(('x', rnd, i, j) for i in range(self.suppliers) for j in range(self.items))
            if stopped:
                if len(set(received)) != len(received) or not set(received) <= set(want):
                    return f'items-wrong-after-stop: round {rnd} received {sorted(received)}'
                return None
            if sorted(received) != want:
                return f'items-wrong: round {rnd} received {sorted(received)}, put {want}'
            # end of the round: renew must leave the queue empty (no marker leaks into the next round)
            try:
                q.renew()
            except Abort:
                raise
            except Exception as e:
                return f'renew-raised: round {rnd}: {e!r}'
            if not q._q.empty() if to_stop is None else not q._q.queue.empty():
                return f'marker-leak: data queue not empty after renew in round {rnd}'
        return verdict
