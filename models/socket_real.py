"""Replay of a C18 counterexample on the REAL asyncio event loop over a real unix socket (fresh interpreter, nothing
patched): `python -m models.socket_real '<json>'` prints `REAL {"message": ...}` (null = everything as it should be)."""
import asyncio
import json
import os
import sys
import tempfile


def run_server_side(params, inp):
    import mpservice.socket as K
    from models import socket_scn as M
    M.choose = lambda name, n: inp.get(name, 0)
    scn = M.SocketScn(**params)
    N = scn.requests
    app = M.make_app(scn, K.SocketApplication, asyncio.sleep)
    path = os.path.join(tempfile.mkdtemp(prefix='c18_'), 'sock')
    server = K.SocketServer(app, path=path, backlog=scn.backlog)

    async def amain():
        srv = await asyncio.start_unix_server(server._handle_connection, path)
        reader, writer = await asyncio.open_unix_connection(path)
        ids = [str(11 + i) for i in range(N)]
        try:
            for i in range(N):
                await K.write_record(writer, ids[i], ('/', ('x', i)))
            for i in range(N):
                try:
                    rid, data = await K.read_record(reader, timeout=3)
                except asyncio.TimeoutError:
                    return f'no response for request {i} within 3 s'
                except asyncio.IncompleteReadError:
                    return f'the server closed the connection before answering request {i}'
                kind = inp.get(f'h{i}', 0) if scn.handler_kinds > 1 else 0
                want = M.outcome_of(i, kind)
                got = ('E', type(data).__name__, tuple(data.args)) if isinstance(data, BaseException) else ('V', data)
                if rid != ids[i]:
                    return f'response {i} carries id {rid!r}, expected {ids[i]!r}'
                if got != want:
                    return f'request {i} ({M.KINDS[kind]}) got {got!r}, expected {want!r}'
            if scn.end == 'shutdown':
                await K.write_record(writer, '99', ('/shutdown', None))
                try:
                    rid, data = await K.read_record(reader, timeout=3)
                except (asyncio.TimeoutError, asyncio.IncompleteReadError) as e:
                    return f'no response to the shutdown request ({type(e).__name__})'
                if rid != '99' or data is not None:
                    return f'wrong shutdown response {rid!r} {data!r}'
                # the server side must end the connection by itself now
                try:
                    rest = await asyncio.wait_for(reader.read(), 3)
                except asyncio.TimeoutError:
                    return 'the server did not close the connection within 3 s of the shutdown request'
                if rest:
                    return f'extra bytes after the last response: {rest[:40]!r}'
            writer.close()
            for _ in range(30):
                if server._n_connections == 0:
                    break
                await asyncio.sleep(0.1)
            else:
                return f'the connection handler did not end within 3 s (connections: {server._n_connections})'
            return None
        finally:
            srv.close()

    loop = asyncio.new_event_loop()
    loop.set_exception_handler(lambda *a: None)
    try:
        return loop.run_until_complete(asyncio.wait_for(amain(), 40))
    except BaseException as e:  # noqa
        return f'real asyncio run raised {type(e).__name__}: {e}'


if __name__ == '__main__':
    spec = json.loads(sys.argv[1])
    if spec['params'].get('kind', 'server') == 'server':
        msg = run_server_side(spec['params'], spec['inputs'])
    else:
        from models.socket_real_client import run_client_side
        msg = run_client_side(spec['params'], spec['inputs'])
    print('REAL ' + json.dumps({'message': msg}))
    sys.stdout.flush()
    os._exit(0)
