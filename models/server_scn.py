"""mpserver.Server: real __enter__/_enter_server, call, _enqueue, _wait_for_result, _gather_output
(incl. the nested notify thread), backlog, stream (-> real fifo_stream), __exit__.  The servlet is
scenario code: one stub worker thread that answers every (uid, x) with (uid, ('R', x)) (or an
exception) some time later."""
import math

from engine_b.rt import Abort
from engine_b.scenario import Scenario
from engine_b.stubs import SDict, SRLock, SSimpleQueue, SThread, choose, fake_threading

INF = math.inf


class STQueue(SSimpleQueue):
    """Stands for mpserver._worker._SimpleThreadQueue (queue.SimpleQueue + an RLock)."""

    def __init__(self):
        super().__init__()
        self._rlock = SRLock()


class WorkErr(Exception):
    pass


class StubServlet:
    input_queue_type = 'thread'
    output_queue_type = 'thread'

    def __init__(self, scn):
        self.scn = scn

    def start(self, q_in, q_out):
        self._q_in, self._q_out = q_in, q_out
        self._t = SThread(target=self._work, name='servlet-worker')
        self._t.start()

    def _work(self):
        while True:
            z = self._q_in.get()
            if z is None:
                self._q_out.put(None)
                return
            uid, x = z
            if self.scn.work_fail and choose(f'wfail{x[1]}', 2) == 1:
                self._q_out.put((uid, WorkErr('work', x[1])))
            else:
                self._q_out.put((uid, ('R', x)))

    def stop(self):
        self._q_in.put(None)
        self._t.join()


class ServerScn(Scenario):
    name = 'server'
    modules = ['mpservice._queues', 'mpservice.threading', 'mpservice.concurrent.futures',
               'mpservice.streamer._streamer', 'mpservice.mpserver._server']

    def __init__(self, callers=('inf', 'inf'), capacity=1, work_fail=False, backpressure='sym',
                 stream=None, check_backlog=False):
        """callers: per caller thread 'inf' (infinite timeout: must get its own answer), 'fin' (finite timeout:
        may time out at any moment).  stream: None or (N, stop) — one more driver streaming N items."""
        self.callers, self.capacity, self.work_fail = tuple(callers), capacity, work_fail
        self.backpressure, self.stream, self.check_backlog = backpressure, stream, check_backlog
        self.params = dict(callers=list(callers), capacity=capacity, work_fail=work_fail,
                           backpressure=backpressure, stream=stream, check_backlog=check_backlog)
        n = len(callers) + (stream[0] if stream else 0)
        self.caps = {'queue': n + 2, 'deque': n + 3}
        self.observed = ('ledger',) if check_backlog else ()

    def extra_patches(self):
        import mpservice.mpserver._server as S
        from engine_b import rt as R

        def fake_id(o):
            return 1000 + R.RT.vals.intern(o)

        return [(S, '_SimpleThreadQueue', STQueue), (S, 'id', fake_id)]

    def main(self):
        from mpservice.mpserver._server import Server, ServerBacklogFull
        from mpservice._common import TimeoutError as MpTimeout
        scn = self
        server = Server(StubServlet(self), capacity=self.capacity)
        server._uid_to_futures = SDict('ledger')
        self._server = server
        server.__enter__()

        def caller(i, kind):
            x = ('x', i)
            bp = False
            if scn.backpressure == 'sym':
                bp = choose(f'bp{i}', 2) == 1
            elif scn.backpressure is True:
                bp = True
            try:
                y = server.call(x, timeout=INF if kind == 'inf' else 5, backpressure=bp)
            except ServerBacklogFull:
                if bp or kind == 'fin':
                    return
                raise AssertionError(f'caller {i}: ServerBacklogFull without back-pressure and without a deadline')
            except MpTimeout:
                if kind == 'fin':
                    return
                raise AssertionError(f'caller {i}: TimeoutError although it waits forever')
            except WorkErr as e:
                if scn.work_fail and choose(f'wfail{i}', 2) == 1 and e.args == ('work', i):
                    return
                raise AssertionError(f'caller {i}: got a failure that is not its own: {e!r}')
            if scn.work_fail and choose(f'wfail{i}', 2) == 1:
                raise AssertionError(f'caller {i}: got {y!r} although its request failed')
            if y != ('R', x):
                raise AssertionError(f'caller {i}: got {y!r}, expected the result of its own request')

        ths = []
        for i, kind in enumerate(self.callers):
            t = SThread(target=caller, args=(i, kind), name=f'caller{i}')
            ths.append(t)
            t.start()
        verdict = None
        if self.stream:
            N, stop = self.stream
            base = len(self.callers)
            out = []
            it = server.stream((('x', base + j) for j in range(N)), return_x=True, timeout=INF)
            try:
                for xy in it:
                    out.append(xy)
                    if stop is not None and len(out) >= stop:
                        break
            except Abort:
                raise
            except BaseException as e:
                verdict = f'stream-raised: {e!r}'
            it.close()
            for j, xy in enumerate(out):
                if xy != (('x', base + j), ('R', ('x', base + j))):
                    verdict = f'stream-output-wrong: item {j} is {xy!r}'
        for t in ths:
            t.join()
        server.__exit__(None, None, None)
        if verdict is None and server.backlog != 0:
            verdict = f'backlog-not-zero: idle server has backlog {server.backlog}'
        return verdict

    def invariant(self, env, S):
        if not self.check_backlog:
            return None
        import z3
        keys = env.uni('ledger', 'k')
        tot = z3.BitVecVal(0, 4)
        for k in keys:
            tot = tot + z3.ZeroExt(3, S.get(f'ledger.p{k}'))
        return z3.ULE(tot, self.capacity)

    def concrete_snapshot(self):
        if not self.check_backlog:
            return None
        return {'backlog': len(self._server._uid_to_futures._real), 'capacity': self.capacity}

    def concrete_invariant(self, snap):
        return snap['backlog'] <= snap['capacity']
