"""Server over REAL servlets and workers on thread queues: real Server.__enter__/_enter_server/call/__exit__,
ThreadServlet.start/stop, SequentialServlet.start/stop, Worker.run/__init__/start/_start_single/stream/call."""
import math

from engine_b.rt import Abort
from engine_b.scenario import Scenario
from engine_b.stubs import SDict, SThread, choose
from models.server_scn import STQueue

INF = math.inf


class InitErr(Exception):
    pass


class WorkErr(Exception):
    pass


class PreErr(Exception):
    pass


class ServletScn(Scenario):
    name = 'servlet'
    modules = ['mpservice._queues', 'mpservice.threading', 'mpservice.concurrent.futures',
               'mpservice.streamer._streamer', 'mpservice.mpserver._worker', 'mpservice.mpserver._servlet',
               'mpservice.mpserver._server']

    def __init__(self, stages=(2,), init_fail=True, work_fail=False, pre_fail=False, callers=1, capacity=2, cycles=1, batch_size=0, validate_all=False, batch_stage=0):
        """stages: number of worker threads of each ThreadServlet in a SequentialServlet (one stage: plain ThreadServlet)."""
        self.stages, self.init_fail, self.work_fail, self.pre_fail = tuple(stages), init_fail, work_fail, pre_fail
        self.callers, self.capacity, self.cycles = callers, capacity, cycles
        self.batch_size = batch_size
        self.batch_stage = batch_stage  # which stage of the sequence batches (its predecessors' failures reach its collector)
        self.validate_all = validate_all  # every later stage has a (never failing) validating preprocess
        self.params = dict(stages=list(stages), init_fail=init_fail, work_fail=work_fail, pre_fail=pre_fail,
                           callers=callers, capacity=capacity, cycles=cycles, batch_size=batch_size, validate_all=validate_all,
                           batch_stage=batch_stage)
        self.caps = {'queue': callers + sum(stages) + 3, 'deque': callers + 3}

    def extra_patches(self):
        import mpservice.mpserver._server as S
        import mpservice.mpserver._servlet as V
        import mpservice.mpserver._worker as W
        from engine_b import rt as R

        def fake_id(o):
            return 1000 + R.RT.vals.intern(o)

        return [(S, '_SimpleThreadQueue', STQueue), (V, '_SimpleThreadQueue', STQueue),
                (W, '_SimpleThreadQueue', STQueue), (S, 'id', fake_id)]

    def main(self):
        from mpservice.mpserver._server import Server
        from mpservice.mpserver._servlet import SequentialServlet, ThreadServlet
        from mpservice.mpserver._worker import Worker
        scn = self

        batchof = SDict('batchof') if self.batch_size else None
        B = self.batch_size
        BS = self.batch_stage

        def root_id(e):
            while e[0] == 'R':
                e = e[2]
            return e[1]

        def genuine(e, stage):
            """Is `e` a regular input of `stage` (the request itself, or the previous stage's result)?"""
            if not (isinstance(e, tuple) and e):
                return False
            return (len(e) == 2 and e[0] == 'x') if stage == 0 else (len(e) == 3 and e[0] == 'R' and e[1] == stage - 1)

        def make_worker(stage):
            class W(Worker):
                def __init__(self, **kw):
                    super().__init__(batch_size=B if stage == BS else 0, **kw)
                    if scn.init_fail and choose(f'initfail{stage}_{self.worker_index}', 2) == 1:
                        raise InitErr('init', stage, self.worker_index)

                if scn.pre_fail and stage == 0:
                    def preprocess(self, x):
                        if choose(f'prefail{x[1]}', 2) == 1:
                            raise PreErr('pre', x[1])
                        return x
                elif scn.validate_all and stage > 0:
                    def preprocess(self, x):
                        # a validating gate that accepts every genuine input of this stage; an upstream failure must
                        # never be handed to it (it is short-circuited to the output)
                        if not (isinstance(x, tuple) and x and x[0] in ('x', 'R')):
                            raise TypeError(f'stage {stage} preprocess got a non-input: {type(x).__name__}')
                        return x

                def call(self, x):
                    if B and stage == BS:
                        xs = x
                        # C09: a batch is a non-empty list of at most B genuine, accepted inputs
                        if not isinstance(xs, list) or not (1 <= len(xs) <= B):
                            raise AssertionError(f'batch-malformed: {xs!r}')
                        ids = []
                        for e in xs:
                            if not genuine(e, stage):
                                raise AssertionError(f'batch-member-not-an-input: {e!r}')
                            if scn.pre_fail and choose(f'prefail{root_id(e)}', 2) == 1:
                                raise AssertionError(f'batch-contains-rejected-element: {e!r}')
                            ids.append(root_id(e))
                        for j in ids:
                            batchof[j] = tuple(sorted(ids))
                        if scn.work_fail and any(choose(f'wfail{stage}_{j}', 2) == 1 for j in ids):
                            raise WorkErr('work', stage, 'batch')
                        return [('R', stage, e) for e in xs]
                    i = x[1]
                    z = x
                    while z[0] == 'R':
                        z = z[2]
                    i = z[1]
                    if scn.work_fail and choose(f'wfail{stage}_{i}', 2) == 1:
                        raise WorkErr('work', stage, i)
                    return ('R', stage, x)

            W.__name__ = f'W{stage}'
            return W

        servlets = [ThreadServlet(make_worker(s), num_threads=n) for s, n in enumerate(self.stages)]
        servlet = servlets[0] if len(servlets) == 1 else SequentialServlet(*servlets)
        server = Server(servlet, capacity=self.capacity)
        server._uid_to_futures = SDict('ledger')
        # which worker fails first in start order (None = all initialise)
        try:
            server.__enter__()
        except Abort:
            raise
        except InitErr as e:
            expected = None
            for s, n in enumerate(self.stages):
                for w in range(n):
                    if expected is None and scn.init_fail and choose(f'initfail{s}_{w}', 2) == 1:
                        expected = ('init', s, w)
            if expected is None or e.args != expected:
                return f'enter-raised-wrong-error: {e!r}, expected {expected}'
            return None  # every thread the failed start launched must be gone: checked as deadlock/progress
        if scn.init_fail:
            for s, n in enumerate(self.stages):
                for w in range(n):
                    if choose(f'initfail{s}_{w}', 2) == 1:
                        return f'enter-succeeded-although-worker-failed: stage {s} worker {w}'

        def expected_of(i):
            x = ('x', i)
            if scn.pre_fail and choose(f'prefail{i}', 2) == 1:
                return ('E', PreErr, ('pre', i))
            y = x
            for s in range(len(scn.stages)):
                if B and s == BS:
                    members = batchof.get(i, None)
                    if members is None or i not in members:
                        return ('NOBATCH',)
                    # exactly the members of a failing batch fail
                    if scn.work_fail and any(choose(f'wfail{s}_{j}', 2) == 1 for j in members):
                        return ('E', WorkErr, ('work', s, 'batch'))
                else:
                    if scn.work_fail and choose(f'wfail{s}_{i}', 2) == 1:
                        return ('E', WorkErr, ('work', s, i))
                y = ('R', s, y)
            return ('V', y)

        def caller(i):
            try:
                y = server.call(('x', i), timeout=INF, backpressure=False)
                got = ('V', y)
            except Abort:
                raise
            except Exception as e:
                got = ('E', type(e), e.args)
                import traceback
                tb = ''.join(traceback.format_exception(type(e), e, e.__traceback__))
                if ' in call' not in tb and ' in preprocess' not in tb:
                    raise AssertionError(f'traceback-lost: caller {i}: {tb[-200:]!r}')
            want = expected_of(i)
            if got != want:
                raise AssertionError(f'caller-outcome-wrong: caller {i} got {got!r}, expected {want!r}')

        ths = [SThread(target=caller, args=(i,), name=f'caller{i}') for i in range(self.callers)]
        for t in ths:
            t.start()
        for t in ths:
            t.join()
        server.__exit__(None, None, None)
        if server.backlog != 0:
            return f'backlog-not-zero: {server.backlog}'
        for c in range(1, self.cycles):
            # the same server object is entered and used again
            server.__enter__()
            try:
                y = server.call(('x', 100 + c), timeout=INF, backpressure=False)
                got = ('V', y)
            except Abort:
                raise
            except Exception as e:
                got = ('E', type(e), e.args)
            server.__exit__(None, None, None)
            if got != expected_of(100 + c):
                return f'second-cycle-wrong: got {got!r}'
        return None
