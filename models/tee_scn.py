"""streamer.tee: real Fork.__next__ / tee() / TeeX.__init__; forks consumed by concurrent threads."""
from engine_b.rt import Abort
from engine_b.scenario import Scenario
from engine_b.stubs import SCell, SCounter, SThread, choose, tracked_attrs, _rt


class SrcError(Exception):
    pass


class SNS:
    """Stands for the SimpleNamespace `head` of tee(): its `value` attribute is a shared cell."""

    def __init__(self):
        self._c = None

    @property
    def value(self):
        return self._c.get()

    @value.setter
    def value(self, v):
        if self._c is None:
            self._c = SCell(None)
        self._c.set(v)


class TeeScn(Scenario):
    name = 'tee'
    modules = ['mpservice.streamer._tee']

    def __init__(self, N=2, forks=2, buffer_size=2, may_fail=True, lookahead=False):
        self.N, self.forks, self.buffer_size, self.may_fail = N, forks, buffer_size, may_fail
        self.lookahead = lookahead
        self.params = dict(N=N, forks=forks, buffer_size=buffer_size, may_fail=may_fail, lookahead=lookahead)
        self.caps = {'queue': buffer_size + 1}

    def extra_patches(self):
        import mpservice.streamer._tee as T

        class TeeXT(T.TeeX):  # same __init__; `next` and `n` become shared cells, the object gets a name
            def __init__(self, x, /):
                self._vname = _rt().current_ctx().alloc('TeeX')
                super().__init__(x)

            def __eq__(self, o):
                return getattr(o, '_vname', None) == self._vname

            def __hash__(self):
                return hash(self._vname)

        self._undo = tracked_attrs(TeeXT, ['value', 'next', 'n', 'lock'])
        return [(T, 'TeeX', TeeXT), (T, 'SimpleNamespace', SNS)]

    def main(self):
        from mpservice.streamer._tee import tee
        scn = self
        N = self.N
        pos = SCell(0, name='srcpos')
        pulled = SCounter('pulled') if self.lookahead else None
        recv = [SCounter(f'recv{i}') for i in range(self.forks)] if self.lookahead else None
        self._ctrs = (pulled, recv)

        class Source:
            def __iter__(self):
                return self

            def __next__(self):
                p = pos.get()
                if p >= N:
                    if scn.may_fail and choose(f'fail{N}', 2) == 1:
                        raise SrcError('src', N)
                    raise StopIteration
                if scn.may_fail and choose(f'fail{p}', 2) == 1:
                    raise SrcError('src', p)
                pos.set(p + 1)
                if pulled is not None:
                    pulled.inc()
                return ('x', p)

        streams = tee(Source(), self.forks, buffer_size=self.buffer_size)

        def consume(i, stream):
            out = []
            err = None
            try:
                for x in stream:
                    out.append(x)
                    if recv is not None:
                        recv[i].inc()
            except Abort:
                raise
            except SrcError as e:
                err = e
            # oracle: the source's prefix, ended the way the source ended
            k = len(out)
            if out != [('x', j) for j in range(k)]:
                raise AssertionError(f'fork-elements-wrong: fork {i} got {out}')
            fail_at = None
            for j in range(N + 1):
                if scn.may_fail and choose(f'fail{j}', 2) == 1:
                    fail_at = j
                    break
            if fail_at is None:
                if err is not None or k != N:
                    raise AssertionError(f'fork-ending-wrong: fork {i} got {k} of {N} elements, err={err!r}')
            else:
                if k != fail_at or err is None or err.args != ('src', fail_at):
                    raise AssertionError(f'fork-ending-wrong: source fails at {fail_at}; fork {i} got {k} elements, err={err!r}')

        ths = [SThread(target=consume, args=(i, s), name=f'fork{i}') for i, s in enumerate(streams)]
        for t in ths:
            t.start()
        for t in ths:
            t.join()
        return None

    def invariant(self, env, S):
        if not self.lookahead:
            return None
        import z3
        return z3.And([z3.ULE(S.get('pulled.n') - S.get(f'recv{i}.n'), self.buffer_size + 2)
                       for i in range(self.forks)])

    def concrete_snapshot(self):
        if not self.lookahead:
            return None
        p, r = self._ctrs
        return {'pulled': p._real, 'recv': [c._real for c in r]}

    def concrete_invariant(self, snap):
        return all(snap['pulled'] - r <= self.buffer_size + 2 for r in snap['recv'])
