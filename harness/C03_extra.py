"""C03 — hand-written conditions: exception objects in the stream, nested lists, shuffle."""
from typing import List

import mpservice.streamer._streamer as S
from mpservice.streamer import Stream

CATALOGUE = [1, ValueError('a'), KeyError('b'), TypeError('c')]


def conc(v, lo, hi):
    for k in range(lo, hi + 1):
        if v == k:
            return k
    raise AssertionError('out of range')


def check_filter_exceptions(codes: List[int], keep: int, drop: int) -> bool:
    """
    pre: len(codes) <= 3 and all(0 <= c <= 3 for c in codes)
    pre: 0 <= keep <= 3 and 0 <= drop <= 3
    twin-pre: len(codes) >= 2
    post: _
    """
    codes = [conc(c, 0, 3) for c in codes]
    xs = [CATALOGUE[c] for c in codes]
    kinds = [None, ValueError, (ValueError, KeyError), Exception]
    keep_t, drop_t = kinds[conc(keep, 0, 3)], kinds[conc(drop, 0, 3)]
    # documented meaning: kept if it matches keep; else dropped if it matches drop; else raised
    ref, raised = [], None
    for x in xs:
        if isinstance(x, BaseException):
            if keep_t is not None and isinstance(x, keep_t):
                ref.append(x)
            elif drop_t is not None and isinstance(x, drop_t):
                continue
            else:
                raised = x
                break
        else:
            ref.append(x)
    got, err = [], None
    try:
        for y in Stream(xs).filter_exceptions(drop_t, keep_t):
            got.append(y)
    except Exception as e:
        err = e
    return got == ref and err is raised


def check_unbatch_nested(a: List[int], b: List[int], c: List[int], n: int) -> bool:
    """
    pre: len(a) <= 2 and len(b) <= 2 and len(c) <= 2 and 1 <= n <= 3
    twin-pre: len(a) + len(c) >= 2 and len(b) == 0
    post: _
    """
    xs = [a, b, c]
    got = Stream(xs).unbatch().batch(n).collect()
    flat = a + b + c
    return got == [flat[i:i + n] for i in range(0, len(flat), n)]


def check_batch_of_batches(xs: List[int], n: int, m: int) -> bool:
    """
    pre: len(xs) <= 5 and 1 <= n <= 3 and 1 <= m <= 3
    twin-pre: len(xs) >= 3
    post: _
    """
    got = Stream(xs).batch(n).batch(m).unbatch().unbatch().collect()
    return got == xs


class FakeRandom:
    """random.randrange / random.shuffle answered from a symbolic choice list."""

    def __init__(self, picks):
        self.picks, self.i = picks, 0

    def _next(self, n):
        v = self.picks[self.i % len(self.picks)] if self.picks else 0
        self.i += 1
        return v % n

    def randrange(self, n):
        return self._next(n)

    def shuffle(self, lst):
        for i in range(len(lst) - 1, 0, -1):
            j = self._next(i + 1)
            lst[i], lst[j] = lst[j], lst[i]

    def random(self):
        return 0.5


def check_shuffle_is_permutation(xs: List[int], picks: List[int], bs: int) -> bool:
    """
    pre: len(xs) <= 3 and all(0 <= x <= 2 for x in xs)
    pre: len(picks) == 2 and all(0 <= p <= 2 for p in picks) and 1 <= bs <= 2
    twin-pre: len(xs) >= 3
    post: _
    """
    old = S.random
    S.random = FakeRandom(picks)
    try:
        got = Stream(xs).shuffle(bs).collect()
    finally:
        S.random = old
    return len(got) == len(xs) and all(got.count(v) == xs.count(v) for v in (0, 1, 2))


def _raised(e):
    """The same exception object after it has really been raised (it now carries a traceback)."""
    try:
        raise e
    except BaseException as x:
        return x


def _peek_unchanged(codes, raisedmask, interval, exc_on, tb_on, then_filter):
    # peek = "print some info under certain conditions before returning the input value unchanged": whatever is printed,
    # for plain values, exception objects that were never raised and exception objects that were raised (traceback)
    codes = [conc(c, 0, 3) for c in codes]
    raisedmask, interval = conc(raisedmask, 0, 3), conc(interval, 1, 2)
    exc_on, tb_on = conc(exc_on, 0, 1), conc(tb_on, 0, 1)
    fresh = [1, ValueError('a'), KeyError('b'), TypeError('c')]
    xs = []
    for k, c in enumerate(codes):
        x = fresh[c]
        if c and (raisedmask >> k) & 1:
            x = _raised(type(x)(*x.args))
        xs.append(x)
    printed = []
    s = Stream(xs).peek(print_func=printed.append, interval=[None, 1, 2][interval],
                        exc_types=BaseException if exc_on else None, with_exc_tb=bool(tb_on))
    if then_filter:
        got = s.filter_exceptions(BaseException).collect()
        want = [x for x in xs if not isinstance(x, BaseException)]
    else:
        got = s.collect()
        want = xs
    return len(got) == len(want) and all(a is b for a, b in zip(got, want))


def check_peek_returns_every_element_unchanged(codes: List[int], raisedmask: int, interval: int, exc_on: int, tb_on: int) -> bool:
    """
    pre: len(codes) <= 2 and all(0 <= c <= 3 for c in codes)
    pre: 0 <= raisedmask <= 3 and 1 <= interval <= 2 and 0 <= exc_on <= 1 and 0 <= tb_on <= 1
    twin-pre: len(codes) >= 2 and codes[0] == 1
    post: _
    """
    return _peek_unchanged(codes, raisedmask, interval, exc_on, tb_on, 0)


def check_peek_then_filter_exceptions(codes: List[int], raisedmask: int, interval: int, exc_on: int, tb_on: int) -> bool:
    """
    pre: len(codes) <= 2 and all(0 <= c <= 3 for c in codes)
    pre: 0 <= raisedmask <= 3 and 1 <= interval <= 2 and 0 <= exc_on <= 1 and 0 <= tb_on <= 1
    twin-pre: len(codes) >= 2 and codes[0] == 0
    post: _
    """
    return _peek_unchanged(codes, raisedmask, interval, exc_on, tb_on, 1)
