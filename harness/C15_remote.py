"""C15 — RemoteException keeps type, args and traceback text over pickle hops.  Real RemoteException.__init__/
__reduce__, _rebuild_exception, is_remote_exception, get_remote_traceback, EnsembleError.  The solver selects among
finitely many control choices (class, raise depth, hops, which hops re-raise); the exception objects themselves are
concrete because pickle and traceback are C / stdlib."""
import pickle
import traceback

from mpservice.multiprocessing.remote_exception import (
    EnsembleError,
    RemoteException,
    get_remote_traceback,
    is_remote_exception,
)


class CustomInit(Exception):
    """custom __init__ with two arguments and a matching __reduce__"""

    def __init__(self, code, detail):
        super().__init__(f'{code}:{detail}')
        self.code, self.detail = code, detail

    def __reduce__(self):
        return type(self), (self.code, self.detail)

    def __eq__(self, o):
        return type(o) is type(self) and (o.code, o.detail) == (self.code, self.detail)

    __hash__ = Exception.__hash__


def conc(v, lo, hi):
    for k in range(lo, hi + 1):
        if v == k:
            return k
    raise AssertionError('out of range')


def _raise_at(depth, make):
    if depth <= 1:
        raise make()
    _raise_at(depth - 1, make)


def make_exc(cls, depth):
    makers = [
        lambda: ValueError('bad value', 7),
        lambda: KeyError('missing'),
        lambda: CustomInit(3, 'x'),
        lambda: OSError(2, 'No such file'),
        lambda: ZeroDivisionError('division by zero'),
    ]
    try:
        if cls == 5:  # chained cause
            try:
                _raise_at(depth, makers[0])
            except ValueError as v:
                raise RuntimeError('outer') from v
        else:
            _raise_at(depth, makers[cls])
    except Exception as e:
        return e


def same(a, b):
    if isinstance(a, CustomInit):
        return a == b
    return type(a) is type(b) and a.args == b.args


def hop(x):
    return pickle.loads(pickle.dumps(RemoteException(x)))


def check_remote_hops(cls: int, depth: int, hops: int, mask: int) -> bool:
    """
    pre: 0 <= cls <= 5 and 1 <= depth <= 3 and 1 <= hops <= 3 and 0 <= mask <= 7
    twin-pre: hops >= 2 and mask >= 1
    post: _
    """
    cls, depth, hops, mask = conc(cls, 0, 5), conc(depth, 1, 3), conc(hops, 1, 3), conc(mask, 0, 7)
    e = make_exc(cls, depth)
    orig = ''.join(traceback.format_exception(type(e), e, e.__traceback__))
    x = e
    prev_tb = None
    for h in range(hops):
        y = hop(x)
        if not same(y, e) or not is_remote_exception(y):
            return False
        tb = get_remote_traceback(y)
        if orig not in tb:
            return False
        if prev_tb is not None and not reraised and tb != prev_tb:
            return False  # only forwarded between hops: identical text
        prev_tb = tb
        reraised = bool(mask >> h & 1)
        if reraised:
            try:
                raise y
            except Exception as z:
                x = z
        else:
            x = y
    return True


def check_ensemble_nesting(cls: int, depth: int, hops: int, pos: int) -> bool:
    """
    pre: 0 <= cls <= 4 and 1 <= depth <= 2 and 1 <= hops <= 3 and 0 <= pos <= 1
    twin-pre: hops >= 2
    post: _
    """
    cls, depth, hops, pos = conc(cls, 0, 4), conc(depth, 1, 2), conc(hops, 1, 3), conc(pos, 0, 1)
    e = make_exc(cls, depth)
    orig = ''.join(traceback.format_exception(type(e), e, e.__traceback__))
    y = [None, None]
    y[pos] = RemoteException(e)
    y[1 - pos] = ('ok', 1)
    try:
        raise EnsembleError({'y': y, 'n': 2})
    except EnsembleError as ee:
        x = ee
    for h in range(hops):
        z = hop(x)
        if type(z) is not EnsembleError or not is_remote_exception(z):
            return False
        inner = z.args[1]['y'][pos]
        if not same(inner, e) or not is_remote_exception(inner) or orig not in get_remote_traceback(inner):
            return False
        if z.args[1]['y'][1 - pos] != ('ok', 1) or z.args[1]['n'] != 2:
            return False
        try:
            raise z
        except EnsembleError as zz:
            x = zz
    return True
