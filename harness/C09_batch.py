"""C09 (unit) — real Worker._get_input_batch on a stub batch buffer with symbolic arrival times and a virtual clock,
and real Worker._start_single with batch_size in {0, 1} on stub queues (wrapping as [x], unwrapping y[0])."""
import queue
from typing import List

import mpservice.mpserver._worker as W


class Clock:
    def __init__(self):
        self.now = 0

    def __call__(self):
        return self.now


class Buffer:
    """SingleLane contract for get()/get(timeout)/put over items that arrive at virtual instants."""

    def __init__(self, clock, arrivals, items):
        self.clock, self.arrivals, self.items, self.k = clock, arrivals, items, 0
        self.putback = []

    def get(self, block=True, timeout=None):
        if self.putback:
            return self.putback.pop(0)
        a = self.arrivals[self.k]
        if timeout is None:
            if a > self.clock.now:
                self.clock.now = a
        else:
            if a > self.clock.now + timeout:
                self.clock.now = self.clock.now + timeout
                raise queue.Empty
            if a > self.clock.now:
                self.clock.now = a
        z = self.items[self.k]
        self.k += 1
        return z

    def put(self, z):
        self.putback.append(z)


class Flag:
    def __init__(self):
        self.v = False

    def set(self):
        self.v = True


def run_batches(n, b, wait, gaps):
    clock = Clock()
    arrivals, t = [], 0
    for g in gaps:
        t = t + g
        arrivals.append(t)
    items = [(100 + i, ('x', i)) for i in range(n)] + [None]
    w = object.__new__(W.Worker)
    w.batch_size, w.batch_wait_time = b, wait
    w._batch_buffer = Buffer(clock, arrivals, items)
    w._batch_get_called = Flag()
    old = W.perf_counter
    W.perf_counter = clock
    try:
        out = []
        while True:
            batch = w._get_input_batch()
            if batch is None:
                break
            out.append((list(batch), clock.now))
            if len(out) > n + 1:
                break
        return out, arrivals
    finally:
        W.perf_counter = old


def spec(n, b, wait, arrivals):
    out, k, now = [], 0, 0
    while True:
        now = max(now, arrivals[k])
        if k == n:
            return out
        batch = [(100 + k, ('x', k))]
        deadline = now + wait
        k += 1
        while len(batch) < b:
            if arrivals[k] > deadline:
                now = deadline
                break
            now = max(now, arrivals[k])
            if k == n:
                break  # the end marker closes the batch and is kept for the next call
            batch.append((100 + k, ('x', k)))
            k += 1
        out.append((batch, now))


def check_get_input_batch(b: int, wait: int, g0: int, g1: int, g2: int, g3: int) -> bool:
    """
    pre: 2 <= b <= 3 and 0 <= wait <= 2
    pre: 0 <= g0 <= 3 and 0 <= g1 <= 3 and 0 <= g2 <= 3 and 0 <= g3 <= 3
    twin-pre: g1 >= 1
    post: _
    """
    real, arr = run_batches(3, b, wait, [g0, g1, g2, g3])
    if real != spec(3, b, wait, arr):
        return False
    # well-formed: non-empty, at most b members, genuine inputs, every request in exactly one batch, in order
    flat = [m for batch, _ in real for m in batch]
    return all(1 <= len(batch) <= b for batch, _ in real) and flat == [(100 + i, ('x', i)) for i in range(3)]


class ListQueue:
    def __init__(self, items=()):
        self.items = list(items)

    def get(self):
        return self.items.pop(0)

    def put(self, x):
        self.items.append(x)


def check_start_single_wrapping(bs: int, n: int, failmask: int, premask: int) -> bool:
    """
    pre: 0 <= bs <= 1 and 0 <= n <= 3 and 0 <= failmask <= 7 and 0 <= premask <= 7
    twin-pre: n >= 2 and bs == 1
    post: _
    """
    calls = []

    class Wk(W.Worker):
        def preprocess(self, x):
            if premask >> x[1] & 1:
                raise ValueError('pre', x[1])
            return x

        def call(self, x):
            calls.append(x)
            if bs == 1:
                if not (isinstance(x, list) and len(x) == 1):
                    raise AssertionError('batch_size=1 must wrap single inputs as [x]')
                e = x[0]
            else:
                e = x
            if failmask >> e[1] & 1:
                raise KeyError('call', e[1])
            return [('R', e)] if bs == 1 else ('R', e)

    w = object.__new__(Wk)
    w.batch_size, w.num_stream_threads, w.name = bs, 0, 'w'
    q_in = ListQueue([(100 + i, ('x', i)) for i in range(n)] + [None])
    q_out = ListQueue()
    w._start_single(q_in=q_in, q_out=q_out)
    got = dict(x for x in q_out.items if x is not None)
    if len(got) != n or q_out.items.count(None) != 1 or q_in.items != [None]:
        return False
    for i in range(n):
        y = got.get(100 + i)
        if premask >> i & 1:
            ok = isinstance(y, W.RemoteException) and isinstance(y.exc, ValueError) and y.exc.args == ('pre', i)
        elif failmask >> i & 1:
            ok = isinstance(y, W.RemoteException) and isinstance(y.exc, KeyError) and y.exc.args == ('call', i)
        else:
            ok = y == ('R', ('x', i))
        if not ok:
            return False
    # call() never sees a rejected element
    seen = [c[0][1] if bs == 1 else c[1] for c in calls]
    return seen == [i for i in range(n) if not premask >> i & 1]
