"""C09 (unit) — real Worker._get_input_batch on a stub batch buffer with symbolic arrival times and a virtual clock,
and real Worker._start_single with batch_size in {0, 1} on stub queues (wrapping as [x], unwrapping y[0])."""
import queue
from typing import List

import mpservice.mpserver._worker as W


class Clock:
    def __init__(self):
        self.now = 0

    def __call__(self):
        return self.now


class Buffer:
    """SingleLane contract for get()/get(timeout)/put over items that arrive at virtual instants."""

    def __init__(self, clock, arrivals, items):
        self.clock, self.arrivals, self.items, self.k = clock, arrivals, items, 0
        self.putback = []

    def get(self, block=True, timeout=None):
        if self.putback:
            return self.putback.pop(0)
        a = self.arrivals[self.k]
        if timeout is None:
            if a > self.clock.now:
                self.clock.now = a
        else:
            if a > self.clock.now + timeout:
                self.clock.now = self.clock.now + timeout
                raise queue.Empty
            if a > self.clock.now:
                self.clock.now = a
        z = self.items[self.k]
        self.k += 1
        return z

    def put(self, z):
        self.putback.append(z)


class Flag:
    def __init__(self):
        self.v = False

    def set(self):
        self.v = True


def run_batches(n, b, wait, gaps):
    clock = Clock()
    arrivals, t = [], 0
    for g in gaps:
        t = t + g
        arrivals.append(t)
    items = [(100 + i, ('x', i)) for i in range(n)] + [None]
    w = object.__new__(W.Worker)
    w.batch_size, w.batch_wait_time = b, wait
    w._batch_buffer = Buffer(clock, arrivals, items)
    w._batch_get_called = Flag()
    old = W.perf_counter
    W.perf_counter = clock
    try:
        out = []
        while True:
            batch = w._get_input_batch()
            if batch is None:
                break
            out.append((list(batch), clock.now))
            if len(out) > n + 1:
                break
        return out, arrivals
    finally:
        W.perf_counter = old


def spec(n, b, wait, arrivals):
    out, k, now = [], 0, 0
    while True:
        now = max(now, arrivals[k])
        if k == n:
            return out
        batch = [(100 + k, ('x', k))]
        deadline = now + wait
        k += 1
        while len(batch) < b:
            if arrivals[k] > deadline:
                now = deadline
                break
            now = max(now, arrivals[k])
            if k == n:
                break  # the end marker closes the batch and is kept for the next call
            batch.append((100 + k, ('x', k)))
            k += 1
        out.append((batch, now))


def check_get_input_batch(b: int, wait: int, g0: int, g1: int, g2: int, g3: int) -> bool:
    """
    pre: 2 <= b <= 3 and 0 <= wait <= 2
    pre: 0 <= g0 <= 3 and 0 <= g1 <= 3 and 0 <= g2 <= 3 and 0 <= g3 <= 3
    twin-pre: g1 >= 1
    post: _
    """
    real, arr = run_batches(3, b, wait, [g0, g1, g2, g3])
    if real != spec(3, b, wait, arr):
        return False
    # well-formed: non-empty, at most b members, genuine inputs, every request in exactly one batch, in order
    flat = [m for batch, _ in real for m in batch]
    return all(1 <= len(batch) <= b for batch, _ in real) and flat == [(100 + i, ('x', i)) for i in range(3)]


class ListQueue:
    def __init__(self, items=()):
        self.items = list(items)

    def get(self):
        return self.items.pop(0)

    def put(self, x):
        self.items.append(x)


def check_start_single_wrapping(bs: int, n: int, failmask: int, premask: int) -> bool:
    """
    pre: 0 <= bs <= 1 and 0 <= n <= 3 and 0 <= failmask <= 7 and 0 <= premask <= 7
    twin-pre: n >= 2 and bs == 1
    post: _
    """
    calls = []

    class Wk(W.Worker):
        def preprocess(self, x):
            if premask >> x[1] & 1:
                raise ValueError('pre', x[1])
            return x

        def call(self, x):
            calls.append(x)
            if bs == 1:
                if not (isinstance(x, list) and len(x) == 1):
                    raise AssertionError('batch_size=1 must wrap single inputs as [x]')
                e = x[0]
            else:
                e = x
            if failmask >> e[1] & 1:
                raise KeyError('call', e[1])
            return [('R', e)] if bs == 1 else ('R', e)

    w = object.__new__(Wk)
    w.batch_size, w.num_stream_threads, w.name = bs, 0, 'w'
    q_in = ListQueue([(100 + i, ('x', i)) for i in range(n)] + [None])
    q_out = ListQueue()
    w._start_single(q_in=q_in, q_out=q_out)
    got = dict(x for x in q_out.items if x is not None)
    if len(got) != n or q_out.items.count(None) != 1 or q_in.items != [None]:
        return False
    for i in range(n):
        y = got.get(100 + i)
        if premask >> i & 1:
            ok = isinstance(y, W.RemoteException) and isinstance(y.exc, ValueError) and y.exc.args == ('pre', i)
        elif failmask >> i & 1:
            ok = isinstance(y, W.RemoteException) and isinstance(y.exc, KeyError) and y.exc.args == ('call', i)
        else:
            ok = y == ('R', ('x', i))
        if not ok:
            return False
    # call() never sees a rejected element
    seen = [c[0][1] if bs == 1 else c[1] for c in calls]
    return seen == [i for i in range(n) if not premask >> i & 1]


# ---- the collector thread's loop: what goes into a batch and what is short-circuited -----------------------------------
class _NullLock:
    def __enter__(self):
        return self

    def __exit__(self, *a):
        return False


class InQueue(ListQueue):
    """Input queue of a worker: items already there; the collector holds its read lock while it drains."""

    def __init__(self, items):
        super().__init__(items)
        self._rlock = _NullLock()

    def empty(self):
        return not self.items


class BatchBuffer:
    """SingleLane between the collector and the batch consumer, never full here (capacity batch_size + 10)."""

    def __init__(self):
        self.items = []
        self._not_full = _NullLock()

    def full(self):
        return False

    def put(self, z):
        self.items.append(z)

    def qsize(self):
        return len(self.items)


class Event0:
    def is_set(self):
        return False

    def clear(self):
        pass


KIND_INPUT, KIND_EXC, KIND_REMOTE, KIND_REJECTED = 0, 1, 2, 3


def check_build_input_batches(k0: int, k1: int, k2: int, n: int, pre: int) -> bool:
    """
    pre: 0 <= k0 <= 3 and 0 <= k1 <= 3 and 0 <= k2 <= 3 and 1 <= n <= 3 and 0 <= pre <= 1
    twin-pre: k0 == 0 and n >= 2
    post: _
    """
    from mpservice.multiprocessing.remote_exception import RemoteException
    kinds = [k0, k1, k2][:n]

    def upstream(i):
        try:
            raise KeyError('upstream', i)
        except KeyError as e:
            return e

    items = []
    for i, k in enumerate(kinds):
        if k == KIND_EXC:
            x = upstream(i)                      # an exception object travelling as a value (thread queues)
        elif k == KIND_REMOTE:
            x = RemoteException(upstream(i))     # the form in which an upstream failure crosses a process boundary
        else:
            x = ('x', i)
        items.append((100 + i, x))

    class Wk(W.Worker):
        if pre:
            def preprocess(self, x):
                if not (isinstance(x, tuple) and x and x[0] == 'x'):
                    raise AssertionError('preprocess got a non-input')   # failures must never be handed to preprocess
                if kinds[x[1]] == KIND_REJECTED:
                    raise ValueError('rejected', x[1])
                return x

    w = object.__new__(Wk)
    w.batch_size = 2
    w._batch_buffer = BatchBuffer()
    w._batch_get_called = Event0()
    q_in, q_out = InQueue(items + [None]), ListQueue()
    w._build_input_batches(q_in, q_out)
    rejected = lambda i: pre == 1 and kinds[i] == KIND_REJECTED  # noqa
    want_buffer = [(100 + i, ('x', i)) for i, k in enumerate(kinds)
                   if k in (KIND_INPUT, KIND_REJECTED) and not rejected(i)] + [None]
    if w._batch_buffer.items != want_buffer:
        return False        # only genuine, accepted inputs may reach a batch, in arrival order; then the end marker
    outs = [z for z in q_out.items if z is not None]
    want_fail = [i for i, k in enumerate(kinds) if k in (KIND_EXC, KIND_REMOTE) or rejected(i)]
    if [u for u, _ in outs] != [100 + i for i in want_fail] or q_out.items.count(None) != 1 or q_in.items != [None]:
        return False        # every failed element is short-circuited to the output, once, in order
    for (u, y), i in zip(outs, want_fail):
        if not isinstance(y, RemoteException):
            return False
        want_args = ('rejected', i) if rejected(i) else ('upstream', i)
        if y.exc.args != want_args:
            return False
    return True
