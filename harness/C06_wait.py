"""C06 (unit) — "without backpressure a request arriving at a full server waits no longer than its timeout": the real
Server._enqueue on a stub condition with a VIRTUAL clock.  Symbolic: the timeout, after how long each wait is notified
(or not at all), and whether the freed slot is taken by another caller before this one re-acquires the lock (a stolen
wake-up).  Checked: whatever the outcome (accepted or ServerBacklogFull), the caller was held no longer than its timeout;
an accepted request is recorded and published exactly once; a rejected one leaves no trace."""
import mpservice.mpserver._server as S


def conc(v, lo, hi):
    for k in range(lo, hi + 1):
        if v == k:
            return k
    raise AssertionError('out of range')


class Clock:
    def __init__(self):
        self.now = 100.0

    def __call__(self):
        return self.now


class Cond:
    """threading.Condition contract for one waiter under a virtual clock."""

    def __init__(self, clock, pipeline, gaps, steals):
        self.clock, self.pipeline, self.gaps, self.steals, self.k = clock, pipeline, gaps, steals, 0
        self.waits = []

    def __enter__(self):
        return self

    def __exit__(self, *a):
        return False

    def notify(self, n=1):
        self.notified = getattr(self, 'notified', 0) + n   # no other waiter in this unit

    def wait(self, timeout=None):
        self.waits.append(timeout)
        g = self.gaps[self.k] if self.k < len(self.gaps) else None   # None: never notified again
        k = self.k
        self.k += 1
        if timeout is not None and timeout <= 0:
            return False
        if g is None or (timeout is not None and g >= timeout):
            self.clock.now += timeout
            return False
        self.clock.now += g
        # notified: a slot was freed ... and possibly taken again by another caller before we re-acquired the lock
        if not self.steals[k]:
            self.pipeline.clear()
        return True


class Buf:
    def __init__(self):
        self.items = []

    def put(self, z):
        self.items.append(z)


def check_enqueue_waits_no_longer_than_timeout(timeout: int, n: int, g0: int, g1: int, g2: int, steal: int) -> bool:
    """
    pre: 2 <= timeout <= 3 and 0 <= n <= 3 and 0 <= g0 <= 3 and 0 <= g1 <= 3 and 0 <= g2 <= 3 and 0 <= steal <= 7
    twin-pre: n >= 1 and steal == 0 and g0 < timeout
    post: _
    """
    timeout, n, steal = conc(timeout, 2, 3), conc(n, 0, 3), conc(steal, 0, 7)
    gaps = [conc(g0, 0, 3), conc(g1, 0, 3), conc(g2, 0, 3)][:n]
    steals = [bool(steal >> k & 1) for k in range(3)]
    clock = Clock()
    pipeline = {1: 'somebody else'}          # capacity 1, full
    srv = object.__new__(S.Server)
    srv._capacity = 1
    srv._uid_to_futures = pipeline
    srv._pipeline_notfull = Cond(clock, pipeline, gaps, steals)
    srv._input_buffer = Buf()
    old = S.perf_counter
    S.perf_counter = clock
    t0 = clock.now
    try:
        try:
            fut = srv._enqueue(('x', 0), float(timeout), False)
            accepted = True
        except S.ServerBacklogFull:
            accepted = False
    finally:
        S.perf_counter = old
    held = clock.now - t0
    if held > timeout + 1e-9:
        return False                      # waited longer than its timeout
    if accepted:
        return list(pipeline.values()).count(fut) == 1 and len(srv._input_buffer.items) == 1 and len(pipeline) <= 1
    return pipeline == {1: 'somebody else'} and srv._input_buffer.items == []
