"""In-process transport for the manager code: the real mpservice.multiprocessing.server_process.Server object serves
every request synchronously, in the same process; requests and responses go through real pickle round trips; the
"which process am I in" flag (current_process()._manager_server) is flipped on around the server-side half, so that
proxies created / unpickled there behave as in-server proxies (short-cut path) and proxies unpickled on the client
side behave as client proxies."""
import pickle
import threading
from multiprocessing import managers as _m
from multiprocessing import process as _p

import mpservice.multiprocessing.server_process as SP

ADDRESS = ('fake-manager', 0)
AUTHKEY = b'k'


class World:
    def __init__(self):
        registry = dict(SP.ServerProcess._registry)
        s = object.__new__(SP.Server)
        s.registry = registry
        s.authkey = _p.AuthenticationString(AUTHKEY)
        s.address = ADDRESS
        s.serializer = 'pickle'
        s.id_to_obj = {'0': (None, ())}
        s.id_to_refcount = {}
        s.mutex = threading.RLock()
        s.stop_event = threading.Event()
        s.listener = None
        self.server = s
        self.depth = 0

    # ---- process flag ---------------------------------------------------------------------------------------
    def in_server(self):
        w = self

        class Ctx:
            def __enter__(self_):
                w.depth += 1
                _p.current_process()._manager_server = w.server

            def __exit__(self_, *a):
                w.depth -= 1
                if w.depth == 0:
                    _p.current_process()._manager_server = None

        return Ctx()

    def in_client(self):
        w = self

        class Ctx:
            def __enter__(self_):
                self_.saved = (w.depth, getattr(_p.current_process(), '_manager_server', None))
                w.depth = 0
                _p.current_process()._manager_server = None

            def __exit__(self_, *a):
                w.depth, srv = self_.saved
                _p.current_process()._manager_server = srv

        return Ctx()

    # ---- one request/response exchange ------------------------------------------------------------------------
    def exchange(self, request):
        wire = pickle.dumps(request)  # client side
        with self.in_server():
            ident, methodname, args, kwds = pickle.loads(wire)
            s = self.server
            if ident is None and methodname == 'accept_connection':
                msg = ('#RETURN', None)  # the connection is this in-process channel
            elif ident is None:  # dispatch(): a public method of the server (incref, decref, get_methods, debug_info …)
                try:
                    result = getattr(s, methodname)(None, *args, **kwds)
                    msg = ('#RETURN', result)
                except Exception:
                    from traceback import format_exc
                    msg = ('#TRACEBACK', format_exc())
            else:
                msg = s._callmethod(None, ident, methodname, args, kwds)
            try:
                back = pickle.dumps(msg)
            except Exception:
                from traceback import format_exc
                back = pickle.dumps(('#UNSERIALIZABLE', format_exc()))  # as Server.serve_client does
            del msg
        return pickle.loads(back)  # client side


WORLD = None


class FakeConn:
    def __init__(self, address=None, authkey=None):
        self._resp = None

    def send(self, request):
        self._resp = WORLD.exchange(request)

    def recv(self):
        r, self._resp = self._resp, None
        return r

    def close(self):
        pass


def install():
    """New world: a fresh server object; the manager's client class is the in-process connection."""
    global WORLD
    WORLD = World()
    _m.listener_client['pickle'] = (_m.listener_client['pickle'][0], FakeConn)
    SP.listener_client = _m.listener_client
    _p.current_process().authkey = _p.AuthenticationString(AUTHKEY)
    _p.current_process()._manager_server = None
    return WORLD


def create(typeid, *args):
    """What ServerProcess.<typeid>(...) does: create the object in the server, hand a proxy to the client."""
    w = WORLD
    with w.in_server():
        proxy = w.server.create(None, typeid, *args)
        wire = pickle.dumps(proxy)
        del proxy
    return pickle.loads(wire)


def refcounts():
    s = WORLD.server
    return {k: s.id_to_refcount[k] for k in s.id_to_obj if k != '0'}


def send_to_other_process(proxy):
    """Pickle a proxy on the client side (in transit) — returns the bytes."""
    return pickle.dumps(proxy)


def receive_in_process(wire):
    return pickle.loads(wire)


def receive_as_process_argument(wire):
    """Unpickle the way a spawned child loads its process object (multiprocessing.spawn._main sets `_inheriting`)."""
    cp = _p.current_process()
    cp._inheriting = True
    try:
        return pickle.loads(wire)
    finally:
        del cp._inheriting


def process_exits_holding(proxy):
    """What multiprocessing.util._exit_function does for a proxy that is still alive when its process exits: a finalizer
    registered with an exit priority is run, one without is discarded (and then never runs)."""
    f = getattr(proxy, '_close', None)
    if f is None:
        return
    if f._key[0] is not None:
        f()
    else:
        f.cancel()
