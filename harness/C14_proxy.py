"""C14 — proxy calls behave like direct calls.  Real Server._callmethod / BaseProxy._callmethod / generated proxy methods /
managed() over the in-process transport (real pickle round trips); a sequence of operations with symbolic small-int
arguments is issued through TWO proxies of the same hosted object and on a local reference object; results, final state
and exceptions (type, args, server-side traceback, connection still usable) must agree."""
import pickle

import mpservice.multiprocessing.server_process as SP
from harness import mgr_transport as T
from mpservice.multiprocessing.remote_exception import get_remote_traceback, is_remote_exception


def conc(v, lo, hi):
    for k in range(lo, hi + 1):
        if v == k:
            return k
    raise AssertionError('out of range')


def same_error(e1, e2):
    """e1 raised through the proxy, e2 raised locally."""
    if type(e1) is not type(e2) or e1.args != e2.args:
        return False
    return is_remote_exception(e1) and 'Traceback' in get_remote_traceback(e1)


def apply_list(obj, op, i, v):
    if op == 0:
        return obj.append(v)
    if op == 1:
        return obj.insert(i, v)
    if op == 2:
        return obj.pop(i)          # IndexError when out of range
    if op == 3:
        return obj[i]               # IndexError
    if op == 4:
        obj[i] = v                  # IndexError
        return None
    if op == 5:
        return obj.remove(v)        # ValueError
    if op == 6:
        return obj.index(v)         # ValueError
    if op == 7:
        return obj.count(v)
    return len(obj)


def run_list(ops, idxs, vals):
    T.install()
    p1 = T.create('list', [0, 1])
    p2 = pickle.loads(pickle.dumps(p1))   # a second proxy of the same hosted object
    local = [0, 1]
    for n, (op, i, v) in enumerate(zip(ops, idxs, vals)):
        px = p1 if n % 2 == 0 else p2
        r1 = e1 = r2 = e2 = None
        try:
            r1 = apply_list(px, op, i, v)
        except Exception as e:
            e1 = e
        try:
            r2 = apply_list(local, op, i, v)
        except Exception as e:
            e2 = e
        if (e1 is None) != (e2 is None):
            return False
        if e1 is not None:
            if not same_error(e1, e2):
                return False
            if len(px) != len(local):     # the connection is still usable after an error
                return False
        elif r1 != r2:
            return False
        if list(p1) != local or list(p2) != local:   # state changes are visible through every proxy
            return False
    return True


def apply_dict(obj, op, k, v):
    if op == 0:
        obj[k] = v
        return None
    if op == 1:
        return obj[k]               # KeyError
    if op == 2:
        return obj.pop(k)           # KeyError
    if op == 3:
        return obj.get(k, -1)
    if op == 4:
        return obj.setdefault(k, v)
    if op == 5:
        return k in obj
    del obj[k]                      # KeyError
    return None


def run_dict(ops, ks, vs):
    T.install()
    p1 = T.create('dict', {0: 5})
    p2 = pickle.loads(pickle.dumps(p1))
    local = {0: 5}
    for n, (op, k, v) in enumerate(zip(ops, ks, vs)):
        px = p1 if n % 2 == 0 else p2
        r1 = e1 = r2 = e2 = None
        try:
            r1 = apply_dict(px, op, k, v)
        except Exception as e:
            e1 = e
        try:
            r2 = apply_dict(local, op, k, v)
        except Exception as e:
            e2 = e
        if (e1 is None) != (e2 is None):
            return False
        if e1 is not None:
            if not same_error(e1, e2) or len(px) != len(local):
                return False
        elif r1 != r2:
            return False
        if p1.copy() != local or p2.copy() != local:
            return False
    return True


IDX = [-1, 0, 2]   # negative, first, out of range for a 2-element list


class BoxError(Exception):
    pass


# what a hosted method may raise while it runs: the caller must see THAT type and args, whatever the type
ERRS = [ValueError, AttributeError, KeyError, TypeError, BoxError]


class Box:
    """A registered custom class; `make` returns a managed() value: the caller must get a live proxy, not a copy."""

    def __init__(self):
        self.items = []

    def make(self, n):
        self.items.append([n])
        return SP.managed(self.items[-1])

    def peek(self, j):
        return list(self.items[j])

    def fail(self, n, kind=0):
        raise ERRS[kind]('box', n)

    # the documented helpers: every one of them must hand out a LIVE proxy of the object the method holds on to
    def make_with(self, n, helper):
        inner = [n]
        self.items.append(inner)
        if helper == 0:
            return SP.managed(inner)
        if helper == 1:
            return SP.managed_list(inner)
        return SP.managed(inner, typeid='ManagedList')

    def make_dict(self, n):
        d = {'k': n}
        self.items.append(d)
        return SP.managed_dict(d)

    def peek_dict(self, j):
        return dict(self.items[j])


SP.ServerProcess.register('VerifBox', Box)


def check_managed_returns_live_proxy(n: int, m: int, first: int, kind: int = 0) -> bool:
    """
    pre: 0 <= n <= 2 and 0 <= m <= 2 and 0 <= first <= 1 and 0 <= kind <= 4
    twin-pre: n != m
    post: _
    """
    n, m, first, kind = conc(n, 0, 2), conc(m, 0, 2), conc(first, 0, 1), conc(kind, 0, 4)
    with _untraced():   # proxy classes are built with exec() of generated source: keep CrossHair's string models out
        return _managed_body(n, m, first, kind)


def check_managed_helpers_return_live_proxies(n: int, m: int, helper: int) -> bool:
    """
    pre: 0 <= n <= 2 and 0 <= m <= 2 and 0 <= helper <= 3
    twin-pre: helper == 1
    post: _
    """
    n, m, helper = conc(n, 0, 2), conc(m, 0, 2), conc(helper, 0, 3)
    with _untraced():
        T.install()
        box = T.create('VerifBox')
        if helper == 3:
            d = box.make_dict(n)
            if d.copy() != {'k': n}:
                return False
            d['k2'] = m                                      # mutation through the returned proxy ...
            if box.peek_dict(0) != {'k': n, 'k2': m}:        # ... is visible on the hosted value
                return False
            d2 = box.make_dict(m)
            return d2['k'] == m and d['k'] == n
        inner = box.make_with(n, helper)
        if list(inner) != [n]:
            return False
        inner.append(m)
        return box.peek(0) == [n, m] and list(inner) == [n, m]


def _untraced():
    import contextlib
    try:
        from crosshair.tracers import NoTracing, is_tracing
        return NoTracing() if is_tracing() else contextlib.nullcontext()
    except Exception:
        return contextlib.nullcontext()


def _managed_body(n, m, first, kind=0):
    T.install()
    box = T.create('VerifBox')
    if first == 1:
        try:
            box.fail(m, kind)
            return False
        except Exception as e:
            if type(e) is not ERRS[kind] or e.args != ('box', m) or not is_remote_exception(e) \
                    or 'in fail' not in get_remote_traceback(e):
                return False
    inner = box.make(n)
    if list(inner) != [n]:
        return False
    inner.append(m)                       # mutation through the returned proxy …
    return box.peek(0) == [n, m] and list(inner) == [n, m]   # … is visible on the hosted value


def check_value_namespace(a: int, b: int) -> bool:
    """
    pre: -2 <= a <= 2 and -2 <= b <= 2
    twin-pre: a != b
    post: _
    """
    a, b = conc(a, -2, 2), conc(b, -2, 2)
    T.install()
    v = T.create('Value', 'i', a)
    ns = T.create('Namespace')
    v2 = pickle.loads(pickle.dumps(v))
    if v.get() != a or v2.value != a:
        return False
    v2.set(b)
    ns.x = a
    ns2 = pickle.loads(pickle.dumps(ns))
    ns2.y = b
    try:
        ns.z
        return False
    except AttributeError:
        pass
    except Exception:   # any other error type is not what a direct attribute access raises
        return False
    return v.value == b and ns2.x == a and ns.y == b


def _warm():
    """Create every proxy type once, concretely, at import time: their classes are built with exec() of generated source,
    which must not happen on symbolic values."""
    for f, a in ((check_managed_returns_live_proxy, (1, 2, 1)), (check_value_namespace, (1, 2)),
                 (check_managed_helpers_return_live_proxies, (1, 2, 1)), (check_managed_helpers_return_live_proxies, (1, 2, 3)),
                 (run_list, ([0, 2], [0, 0], [1, 1])), (run_dict, ([0, 2], [1, 1], [1, 1]))):
        try:
            f(*a)
        except Exception:   # a wrong answer here is for the conditions to report, not for import to die on
            pass


_warm()
