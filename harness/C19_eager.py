"""C19 — EagerBatcher: real EagerBatcher.__iter__ on a stub queue with symbolic arrival times and a virtual
clock (time.perf_counter of the streamer module is patched to it).  Zero compute time."""
import queue
from typing import List

import mpservice.streamer._streamer as S


class Clock:
    def __init__(self):
        self.now = 0

    def perf_counter(self):
        return self.now


class ArrivalQueue:
    """Items (and finally the end marker) become available at given virtual instants."""

    def __init__(self, clock, arrivals, items):
        self.clock, self.arrivals, self.items = clock, arrivals, items
        self.k = 0

    def get(self, block=True, timeout=None):
        a = self.arrivals[self.k]
        if timeout is None:
            if a > self.clock.now:
                self.clock.now = a
        else:
            if a > self.clock.now + timeout:
                self.clock.now = self.clock.now + timeout
                raise queue.Empty
            if a > self.clock.now:
                self.clock.now = a
        z = self.items[self.k]
        self.k += 1
        return z


def run_real(n, batch_size, wait, gaps, endmarker):
    clock = Clock()
    arrivals = []
    t = 0
    for g in gaps:
        t = t + g
        arrivals.append(t)
    items = [('x', i) for i in range(n)] + [endmarker]
    q = ArrivalQueue(clock, arrivals, items)
    old = S.time
    S.time = clock
    try:
        out = []
        for b in S.EagerBatcher(q, batch_size=batch_size, batch_wait_time=wait, endmarker=endmarker):
            out.append((list(b), clock.now))
        return out, arrivals
    finally:
        S.time = old


def spec(n, batch_size, wait, arrivals):
    """The documented meaning: consecutive batches; a batch closes when full, when the end marker arrives,
    or when no further item arrives within `wait` of its first item; it is then emitted at once."""
    out = []
    k = 0
    now = 0
    while True:
        now = max(now, arrivals[k])
        if k == n:
            return out
        batch = [('x', k)]
        deadline = now + wait
        k += 1
        ended = False
        while len(batch) < batch_size:
            if arrivals[k] > deadline:
                now = deadline
                break
            now = max(now, arrivals[k])
            if k == n:
                ended = True
                break
            batch.append(('x', k))
            k += 1
        out.append((batch, now))
        if ended:
            return out


def check_eager_n2(batch_size: int, wait: int, g0: int, g1: int, g2: int) -> bool:
    """
    pre: 1 <= batch_size <= 3 and 0 <= wait <= 3
    pre: 0 <= g0 <= 4 and 0 <= g1 <= 4 and 0 <= g2 <= 4
    post: _
    """
    real, arr = run_real(2, batch_size, wait, [g0, g1, g2], None)
    return real == spec(2, batch_size, wait, arr) and sum((b for b, _ in real), []) == [('x', 0), ('x', 1)]


def check_eager_n3(batch_size: int, wait: int, g0: int, g1: int, g2: int, g3: int) -> bool:
    """
    pre: 1 <= batch_size <= 3 and 0 <= wait <= 2
    pre: 0 <= g0 <= 3 and 0 <= g1 <= 3 and 0 <= g2 <= 3 and 0 <= g3 <= 3
    post: _
    """
    real, arr = run_real(3, batch_size, wait, [g0, g1, g2, g3], None)
    return real == spec(3, batch_size, wait, arr) and all(1 <= len(b) <= batch_size for b, _ in real)


def check_eager_custom_end(batch_size: int, wait: int, g0: int, g1: int) -> bool:
    """
    pre: 1 <= batch_size <= 2 and 0 <= wait <= 3
    pre: 0 <= g0 <= 4 and 0 <= g1 <= 4
    post: _
    """
    real, arr = run_real(1, batch_size, wait, [g0, g1], 'THE-END')
    return real == spec(1, batch_size, wait, arr)


def check_eager_n0(batch_size: int, wait: int, g0: int) -> bool:
    """
    pre: 1 <= batch_size <= 3 and 0 <= wait <= 3 and 0 <= g0 <= 4
    post: _
    """
    real, arr = run_real(0, batch_size, wait, [g0], None)
    return real == []
