"""C18 (framing part) — real socket.write_record / read_record / encode / decode driven by hand over one byte
buffer: two consecutive records with symbolic payload bytes must parse back to exactly the two payloads and
consume the buffer completely, whatever the payload bytes are (newlines, spaces, header look-alikes)."""
from typing import List

import mpservice.socket as K


class Writer:
    def __init__(self):
        self.buf = b''

    def write(self, b):
        self.buf = self.buf + bytes(b)

    async def drain(self):
        return None


class Reader:
    """asyncio.StreamReader contract for readuntil / readexactly over a finite buffer."""

    def __init__(self, buf):
        self.buf, self.pos = buf, 0

    async def readuntil(self, sep=b'\n'):
        i = self.buf.find(sep, self.pos)
        if i < 0:
            raise EOFError('incomplete')
        out = self.buf[self.pos:i + len(sep)]
        self.pos = i + len(sep)
        return out

    async def read(self, n=-1):
        """StreamReader.read contract: returns AT MOST n bytes — whatever one network read delivered (here: 2 bytes)."""
        avail = len(self.buf) - self.pos
        k = min(avail, 2 if n < 0 else min(n, 2))
        out = self.buf[self.pos:self.pos + k]
        self.pos += k
        return out

    async def readexactly(self, n):
        if self.pos + n > len(self.buf):
            raise EOFError('incomplete')
        out = self.buf[self.pos:self.pos + n]
        self.pos += n
        return out


def conc(v, lo, hi):
    for k in range(lo, hi + 1):
        if v == k:
            return k
    raise AssertionError('out of range')


async def _wait_for(aw, timeout):
    return await aw


def drive(coro):
    """Run a coroutine that never really suspends."""
    try:
        coro.send(None)
    except StopIteration as s:
        return s.value
    raise AssertionError('coroutine suspended')


def roundtrip(p1, p2, id1, id2, encoder):
    old = K.asyncio.wait_for
    K.asyncio.wait_for = _wait_for
    try:
        w = Writer()
        drive(K.write_record(w, id1, p1, encoder=encoder))
        drive(K.write_record(w, id2, p2, encoder=encoder))
        r = Reader(w.buf)
        a = drive(K.read_record(r))
        b = drive(K.read_record(r))
        return a, b, r.pos == len(w.buf)
    finally:
        K.asyncio.wait_for = old


def check_framing_bytes(p1: bytes, p2: bytes) -> bool:
    """
    pre: len(p1) <= 6 and len(p2) <= 6
    twin-pre: len(p1) >= 2 and len(p2) >= 1
    post: _
    """
    a, b, consumed = roundtrip(p1, p2, '7', '123456789012345', 'none')
    return a == ('7', p1) and b == ('123456789012345', p2) and consumed


def check_framing_headerlike(n: int, m: int) -> bool:
    """
    pre: 0 <= n <= 3 and 0 <= m <= 3
    twin-pre: n >= 1
    post: _
    """
    # payloads that look like headers / contain separators, selected by the solver
    cat = [b'', b'\n', b'8 3 none\nabc', b'1 0 pickle\n', b'a b c\n\n 12 ']
    p1, p2 = cat[(n * 2 + 1) % len(cat)], cat[m % len(cat)]
    a, b, consumed = roundtrip(p1, p2, 'req-1', 'req-2', 'none')
    return a == ('req-1', p1) and b == ('req-2', p2) and consumed


def check_framing_pickle(i: int, j: int) -> bool:
    """
    pre: 0 <= i <= 4 and 0 <= j <= 4
    twin-pre: i >= 1
    post: _
    """
    # pickled payloads are a subset of byte strings (covered symbolically above); here concrete objects
    # whose pickles contain newlines / header-like text are selected by the solver
    cat = [[1, -300, 2 ** 40], {'k': '\n 3 none\n'}, b'\n' * 3, ('10 2 pickle\n', None), 10]
    i, j = conc(i, 0, 4), conc(j, 0, 4)
    x, y = cat[(i + 1) % 5], cat[j % 5]
    a, b, consumed = roundtrip(x, y, '1', '2', 'pickle')
    return a == ('1', x) and b == ('2', y) and consumed


def check_framing_utf8(s1: str, s2: str) -> bool:
    """
    pre: len(s1) <= 2 and len(s2) <= 1
    twin-pre: len(s1) >= 1
    post: _
    """
    a, b, consumed = roundtrip(s1, s2, 'a', 'b', 'utf8')
    return a == ('a', s1) and b == ('b', s2) and consumed


# ---- named-pipe transport: only the path wiring is mpservice's; the FIFOs themselves are stubbed -----------
import pickle as _pickle

import mpservice.pipe as PP

_FIFOS = {}


class _Conn:
    """multiprocessing.connection.Connection over an in-memory FIFO keyed by the path it was opened on."""

    def __init__(self, handle, readable=True, writable=True):
        self.path = handle

    def send(self, obj):
        _FIFOS.setdefault(self.path, []).append(_pickle.dumps(obj))

    def recv(self):
        return _pickle.loads(_FIFOS[self.path].pop(0))


def check_pipe_wiring(dirs: List[bool], vals: List[int]) -> bool:
    """
    pre: len(dirs) <= 3 and len(vals) == len(dirs) and all(0 <= v <= 1 for v in vals)
    twin-pre: len(dirs) >= 2 and dirs[0] != dirs[1]
    post: _
    """
    _FIFOS.clear()
    old = (PP._mkfifo, PP.os.open, PP.multiprocessing.connection.Connection)
    PP._mkfifo = lambda p: None
    opened = []
    real_open = PP.os.open

    def fake_open(path, flags, *a):
        opened.append(path)
        return path

    class _OS:
        def __getattr__(self, n):
            return getattr(old_os, n)

    old_os = PP.os
    fake_os = type('FakeOS', (), {'open': staticmethod(fake_open), 'path': old_os.path, 'O_SYNC': old_os.O_SYNC,
                                  'O_CREAT': old_os.O_CREAT, 'O_RDWR': old_os.O_RDWR, 'O_RDONLY': old_os.O_RDONLY,
                                  'makedirs': old_os.makedirs, 'mkfifo': old_os.mkfifo, 'stat': old_os.stat})
    PP.os = fake_os
    old_conn = PP.multiprocessing.connection.Connection
    PP.multiprocessing.connection.Connection = _Conn
    try:
        srv, cli = PP.Server('/tmp/verif-pipe'), PP.Client('/tmp/verif-pipe')
        sent = {True: [], False: []}
        for d, v in zip(dirs, vals):
            v = conc(v, 0, 1)
            (srv if d else cli).send(('m', v))
            sent[bool(d)].append(('m', v))
        got_by_cli = [cli.recv() for _ in sent[True]]
        got_by_srv = [srv.recv() for _ in sent[False]]
        return got_by_cli == sent[True] and got_by_srv == sent[False] and all(not q for q in _FIFOS.values())
    finally:
        PP._mkfifo = old[0]
        PP.os = old_os
        PP.multiprocessing.connection.Connection = old_conn
