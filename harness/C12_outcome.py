"""C12 — Process and Thread objects report how their target ended.  Real SpawnProcess.run (child side, on a stub
pipe), SpawnProcess._collect_result/join/result/exception/done, Thread.run/join/result/exception/done and
multiprocessing.wait / as_completed; the OS facts (pipe EOF position, exit code) are stubs chosen by the solver."""
import concurrent.futures
import os
import pickle

import mpservice.multiprocessing as mpm
from mpservice.multiprocessing.context import SpawnProcess
from mpservice.multiprocessing.remote_exception import get_remote_traceback, is_remote_exception
from mpservice.threading import Thread


def conc(v, lo, hi):
    for k in range(lo, hi + 1):
        if v == k:
            return k
    raise AssertionError('out of range')


class Custom(Exception):
    def __init__(self, a, b):
        super().__init__(a, b)
        self.a, self.b = a, b

    def __reduce__(self):
        return type(self), (self.a, self.b)


VALUES = [None, 0, 'text', (1, [2, 3]), {'k': 1.5}]
ERRORS = [lambda: ValueError('bad', 3), lambda: KeyError('k'), lambda: Custom(1, 'two'), lambda: OSError(5, 'io')]


# sys.exit with any code: None and 0 are success; every other code — an int, or a non-int whether truthy or FALSY — is a
# failure that the interpreter reports with exit status code (int) or 1 (non-int)
EXIT_CODES = [None, 0, 3, 'msg', '', 0.0]


def make_target(kind, idx):
    """kind: 0 return VALUES[idx]; 1 raise ERRORS[idx]; 2.. sys.exit(EXIT_CODES[kind - 2])"""
    def target():
        if kind == 0:
            return VALUES[idx % len(VALUES)]
        if kind == 1:
            raise ERRORS[idx % len(ERRORS)]()
        raise SystemExit(EXIT_CODES[kind - 2])
    return target


class Writer:
    """child end of the result pipe: records the pickled messages (as the real Connection.send would)"""

    def __init__(self):
        self.msgs = []

    def send(self, x):
        self.msgs.append(pickle.dumps(x))

    def close(self):
        pass


class Reader:
    def __init__(self, msgs, eof_at):
        self.msgs, self.eof_at, self.k = msgs, eof_at, 0

    def recv(self):
        if self.k >= self.eof_at or self.k >= len(self.msgs):
            raise EOFError
        m = self.msgs[self.k]
        self.k += 1
        return pickle.loads(m)

    def close(self):
        pass


class LogQ:
    def __init__(self):
        self.items = []

    def put(self, x):
        self.items.append(x)

    def close(self):
        pass


class DoneThread:
    def join(self, timeout=None):
        pass


def _ready_fd():
    r, w = os.pipe()
    os.close(w)
    return r


_GONE = _ready_fd()   # a descriptor at end-of-file: multiprocessing.connection.wait() reports it ready at once


class P(SpawnProcess):
    """SpawnProcess with the OS-level facts stubbed: never spawns; exitcode as given."""
    _exit = None
    daemon = False
    name = 'P-under-test'

    @property
    def exitcode(self):
        return self._exit

    @property
    def sentinel(self):
        return _GONE   # the child is gone: its sentinel is ready

    @staticmethod
    def handle_exception(exc):
        pass


def run_child(kind, idx):
    p = object.__new__(P)
    w, lq = Writer(), LogQ()
    p._target, p._args = make_target(kind, idx), ()
    p._kwargs = {'_result_and_error_': w, '_logger_queue_': lq}
    p.run()
    return w.msgs, p._mpservice_exitcode_


def parent_after(msgs, eof_at, exitcode):
    import multiprocessing.process as _mpp
    p = object.__new__(P)
    p._result_and_error_ = Reader(msgs, eof_at)
    p._logger_queue_ = LogQ()
    p._future_ = concurrent.futures.Future()
    p._result_collector_thread_ = DoneThread()
    p._exit = exitcode
    _mpp.BaseProcess.join = lambda self, timeout=None: None  # the OS-level join: the child is gone
    try:
        p._collect_result()
    except BaseException as e:  # the collector thread would die with this
        p._collector_died = e
    return p


def collector_survived(p):
    """The collector thread must run to its end whatever the child did (it also ends the log reader)."""
    return getattr(p, '_collector_died', None) is None and p._logger_queue_.items[-1:] == [None]


def accessors_agree(p, first, expect):
    """expect: ('value', v) | ('error', type, args) | ('oserror', errno)"""
    # wait / as_completed must not hang: with timeout 0 the process must already count as done
    if not p._future_.done():
        return False
    order = [first, (first + 1) % 4, (first + 2) % 4, (first + 3) % 4]
    for a in order:
        got_exc, got_val = None, None
        try:
            if a == 0:
                p.join()
            elif a == 1:
                got_val = p.result()
            elif a == 2:
                got_exc = p.exception()
            else:
                done, not_done = mpm.wait([p])
                if p not in done or not_done:
                    return False
                if [q for q in mpm.as_completed([p])] != [p]:
                    return False
                continue
        except BaseException as e:
            got_exc = e
        if expect[0] == 'value':
            if got_exc is not None or (a == 1 and got_val != expect[1]):
                return False
        else:
            if got_exc is None:
                return False
            if expect[0] == 'error':
                if type(got_exc) is not expect[1] or got_exc.args != expect[2]:
                    return False
                if not is_remote_exception(got_exc) or 'target' not in get_remote_traceback(got_exc):
                    return False
            elif not isinstance(got_exc, OSError) or got_exc.errno != expect[1]:
                return False
    return p.done()


def check_process_outcome(kind: int, idx: int, first: int) -> bool:
    """
    pre: 0 <= kind <= 7 and 0 <= idx <= 4 and 0 <= first <= 3
    twin-pre: kind == 1
    post: _
    """
    kind, idx, first = conc(kind, 0, 7), conc(idx, 0, 4), conc(first, 0, 3)
    msgs, code = run_child(kind, idx)
    if len(msgs) != 2:
        return False
    p = parent_after(msgs, 2, code)
    if kind == 0:
        expect = ('value', VALUES[idx % len(VALUES)])
        if code != 0:
            return False
    elif kind == 1:
        e = ERRORS[idx % len(ERRORS)]()
        expect = ('error', type(e), e.args)
        if code != 1:
            return False
    elif kind in (2, 3):
        expect = ('value', None)
    else:
        c = EXIT_CODES[kind - 2]
        expect = ('error', SystemExit, (c,))
        if code != (c if isinstance(c, int) else 1):
            return False      # the exit status the child reports
    return collector_survived(p) and accessors_agree(p, first, expect)


def check_process_killed(kind: int, idx: int, phase: int, sig: int, first: int) -> bool:
    """
    pre: 0 <= kind <= 1 and 0 <= idx <= 1 and 0 <= phase <= 1 and 0 <= sig <= 6 and 0 <= first <= 3
    twin-pre: sig == 3
    post: _
    """
    kind, idx, phase, first = conc(kind, 0, 1), conc(idx, 0, 1), conc(phase, 0, 1), conc(first, 0, 3)
    sig = [1, 2, 3, 9, 11, 15, 31][conc(sig, 0, 6)]  # SIGHUP, SIGINT, SIGQUIT, SIGKILL, SIGSEGV, SIGTERM, SIGSYS
    msgs, _ = run_child(kind, idx)
    # killed before anything was sent (phase 0) or between the two sends (phase 1): EOF on the pipe
    p = parent_after(msgs, phase, -sig)
    if sig == 15:
        # terminate(): documented as ending quietly; a result that had already arrived is reported
        expect = ('value', VALUES[idx % len(VALUES)] if (phase == 1 and kind == 0) else None)
    else:
        expect = ('oserror', sig)
    return collector_survived(p) and accessors_agree(p, first, expect)


def check_thread_outcome(kind: int, idx: int, first: int) -> bool:
    """
    pre: 0 <= kind <= 5 and 0 <= idx <= 4 and 0 <= first <= 2
    twin-pre: kind == 1
    post: _
    """
    kind, idx, first = conc(kind, 0, 5), conc(idx, 0, 4), conc(first, 0, 2)
    t = Thread(target=make_target(kind, idx))
    Thread.handle_exception = staticmethod(lambda exc: None)
    t.run()
    t._started.set()
    t._is_stopped = True
    t._tstate_lock = None
    if not t._future_.done() or not t.done():
        return False
    for a in [first, (first + 1) % 3, (first + 2) % 3]:
        got_exc, got_val = None, None
        try:
            if a == 0:
                t.join()
            elif a == 1:
                got_val = t.result()
            else:
                got_exc = t.exception()
        except BaseException as e:
            got_exc = e
        if kind == 0:
            if got_exc is not None or (a == 1 and got_val != VALUES[idx % len(VALUES)]):
                return False
        elif kind in (2, 3):
            if got_exc is not None or got_val is not None:
                return False
        elif kind == 1:
            e = ERRORS[idx % len(ERRORS)]()
            if type(got_exc) is not type(e) or got_exc.args != e.args or 'target' not in str(got_exc.__cause__):
                return False
        else:
            if type(got_exc) is not SystemExit or got_exc.code != (3 if kind == 4 else 'msg'):
                return False
    import mpservice.threading as mt
    d, nd = mt.wait([t])
    return t in d and not nd and list(mt.as_completed([t])) == [t]


def check_process_dies_by_itself(kind: int, idx: int, phase: int, code: int, first: int) -> bool:
    """
    pre: 0 <= kind <= 1 and 0 <= idx <= 1 and 0 <= phase <= 1 and 0 <= code <= 2 and 0 <= first <= 3
    twin-pre: code == 1
    post: _
    """
    # The child ends on its own with a non-zero status before both messages crossed the pipe (its result or its
    # exception could not be pickled -> exit status 1; the target called os._exit(n)): EOF on the pipe with a
    # POSITIVE exit status.  That is a failure of the process and must surface as an error, never as "returned None".
    kind, idx, phase, first = conc(kind, 0, 1), conc(idx, 0, 1), conc(phase, 0, 1), conc(first, 0, 3)
    status = [1, 3, 120][conc(code, 0, 2)]
    msgs, _ = run_child(kind, idx)
    p = parent_after(msgs, phase, status)
    if not p._future_.done():
        return False
    for a in [first, (first + 1) % 4, (first + 2) % 4, (first + 3) % 4]:
        got_exc = None
        try:
            if a == 0:
                p.join()
            elif a == 1:
                p.result()
            elif a == 2:
                got_exc = p.exception()
            else:
                done, not_done = mpm.wait([p])
                if p not in done or not_done:
                    return False
                continue
        except BaseException as e:
            got_exc = e
        if not isinstance(got_exc, OSError):
            return False
    return p.done() and p.exitcode == status
