"""C01 — parallel map is order-preserving and exactly-once (Engine B)."""
import time

from .common import finish, load_known, run_b_job, run_jobs

PID = 'C01'
F = 'models.fifo_scn:FifoScn'


def configs(tier):
    cs = []
    base = [(2, 1, None), (2, 2, None), (2, 1, 1), (3, 1, 1)]
    if tier == 'thorough':
        base += [(3, 2, None), (3, 2, 1), (3, 1, 2), (4, 1, 1), (3, 3, 2)]
    for N, c, cap in base:
        cs.append(dict(N=N, concurrency=c, capacity=cap, fn_fail=True, return_exceptions=True, return_x=True))
        cs.append(dict(N=N, concurrency=c, capacity=cap, fn_fail=True, return_exceptions=False, return_x=False))
    cs.append(dict(N=2, concurrency=2, capacity=None, fn_fail=True, pre_fail=True, return_exceptions=True))
    # "for any input sequence": every element is a symbolic choice among a regular value and None, 0, False, '', ()
    cs.append(dict(N=2, concurrency=1, capacity=1, return_x=True, odd_values=True))
    if tier == 'thorough':
        cs.append(dict(N=3, concurrency=2, capacity=None, return_x=False, odd_values=True))
    return cs


def run(tier):
    t0 = time.time()
    known = load_known(PID)
    jobs = [(run_b_job, ({'property': PID, 'scenario': F, 'params': p, 'known': known},
                         3000 if tier == 'thorough' else 900)) for p in configs(tier)]
    results = run_jobs(jobs)
    return finish(
        PID, tier, 'model_checking', results, t0,
        explanation='Real fifo_stream (incl. feed), Parmapper.__iter__, SingleLane, Thread.run/join executed '
                    'thread-modularly on symbolic primitives with an executor stub of `concurrency` workers; which '
                    'calls fail is a symbolic input; completion order = scheduling of the pool workers. The driver '
                    'compares the outputs with the sequential meaning (order, pairing with x, exception objects); '
                    'FAIL terminals, deadlocks and traps are the violation. Solver: initiation, consecution, safety and '
                    'progress queries over a learned state set (inductive invariant) + reachability twin.',
        assumptions=['executor contract (submit -> pending Future + FIFO job list; worker: take, run, set result); the same '
                     'stub stands for thread and process pools, pickling across the process boundary is outside',
                     'stub contracts of Lock, deque, Event, Future, Thread (DESIGN.md 2.2)',
                     'payload-oblivious code: element values are distinct opaque tokens'],
        outside=['N, concurrency, capacity beyond the listed configurations', 'real pickling', 'executor initialisers'])
