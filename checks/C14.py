"""C14 — proxy calls behave like direct calls on the hosted object (Engine A over an in-process transport)."""
import os
import sys

from . import _a
from .common import VERIF

PID = 'C14'


def run(tier):
    from harness import C14_gen
    scratch = os.path.join(VERIF, '.scratch')
    name = 'c14_gen_' + tier
    names = C14_gen.generate(os.path.join(scratch, name + '.py'), 3 if tier == 'thorough' else 2)
    if scratch not in sys.path:
        sys.path.insert(0, scratch)
    return _a.run(
        PID, tier, [name, 'harness.C14_proxy'],
        explanation=f'{len(names)} generated conditions: every sequence of {3 if tier == "thorough" else 2} operations over 9 list '
                    'operations and 7 dict operations (including the ones that raise), issued alternately through TWO proxies of '
                    'the same hosted object and on a local reference object, with symbolic index/key/value arguments; plus a '
                    'registered custom class whose method returns managed(...) (the caller must get a live proxy whose mutation is '
                    'visible on the hosted value, also right after a failing call), Value and Namespace. Compared: return values, '
                    'state through both proxies after every step, exception type and args with a server-side traceback, and that '
                    'the connection still works after an error. Real Server._callmethod / BaseProxy._callmethod / generated proxy '
                    'methods / managed() over real pickle round trips (in-process transport).',
        assumptions=['one process, synchronous transport (the per-connection server threads are stdlib)',
                     'after concretisation the body runs with CrossHair tracing off (proxy classes are built with exec(); '
                     'CrossHair\'s container models would change exception arguments): the solver enumerates the argument choices'],
        outside=['concurrent callers from several threads/processes', 'arbitrary picklable argument types (small ints only)'],
        timeout_quick=200, timeout_thorough=600,
        functions=['mpservice/multiprocessing/server_process.py:' + f for f in (
            'Server._callmethod', 'Server.create', 'BaseProxy._callmethod', 'add_proxy_methods', 'managed', 'ListProxy',
            'DictProxy', 'ValueProxy', 'NamespaceProxy.__getattr__', 'NamespaceProxy.__setattr__', 'AutoProxy')])
