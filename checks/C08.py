"""C08 — bounded look-ahead and bounded concurrency (Engine B, step invariants)."""
import time

from .common import finish, load_known, run_b_job, run_jobs

PID = 'C08'
F = 'models.fifo_scn:FifoScn'
B = 'models.buffer_scn:BufferScn'


def configs(tier):
    cs = [
        (F, dict(N=5, concurrency=1, capacity=1, fn_fail=False, observe=True, lazy_take=1)),
        (F, dict(N=3, concurrency=2, capacity=None, fn_fail=False, observe=True, lazy_take=1)),
        (B, dict(N=4, maxsize=1, may_fail=False, lookahead=True, lazy_take=1)),
        (B, dict(N=5, maxsize=2, may_fail=False, lookahead=True, lazy_take=1)),
    ]
    if tier == 'thorough':
        cs += [
            (F, dict(N=6, concurrency=1, capacity=2, fn_fail=False, observe=True, lazy_take=1)),
            (F, dict(N=5, concurrency=1, capacity=1, fn_fail=False, observe=True, lazy_take=2)),
            (F, dict(N=8, concurrency=2, capacity=None, fn_fail=False, observe=True, lazy_take=1)),
            (B, dict(N=6, maxsize=3, may_fail=False, lookahead=True, lazy_take=1)),
        ]
    return cs


def run(tier):
    t0 = time.time()
    known = load_known(PID)
    jobs = [(run_b_job, ({'property': PID, 'scenario': s, 'params': p, 'known': known},
                         3000 if tier == 'thorough' else 900)) for s, p in configs(tier)]
    results = run_jobs(jobs)
    return finish(
        PID, tier, 'model_checking', results, t0,
        explanation='Observer counters `pulled` (source elements produced), `handed` (outputs received by the consumer) and '
                    '`running` (calls inside the worker function) are part of the symbolic state; the state invariant '
                    'pulled-handed <= capacity+3 (fifo_stream/parmap; capacity = 2*concurrency for parmap), <= n+2 '
                    '(buffer(n)) and running <= concurrency is asserted on every state of the inductive invariant. A lazy '
                    'consumer (takes one output, then closes) with N > bound elements makes an overshoot reachable if '
                    'the feeder were not blocked by the hand-off queue.',
        assumptions=['counter updates are never fused with another non-mover, so no intermediate valuation is skipped',
                     'stub contracts as for C01/C05'],
        outside=['stream lengths beyond the listed N (the bound is checked for these lengths only)', 'concurrency > 2'])
