"""C09 — workers see well-formed batches; no request waits for a full batch (Engine B + Engine A units)."""
import time

from engine_a.driver import conditions_of, run_condition

from .common import finish, load_known, run_b_job, run_jobs

PID = 'C09'
S = 'models.servlet_scn:ServletScn'


def configs(tier):
    cs = [
        dict(stages=[1], init_fail=False, work_fail=False, callers=1, batch_size=2, capacity=2),
        dict(stages=[1], init_fail=False, work_fail=True, pre_fail=True, callers=1, batch_size=2, capacity=2),
    ]
    if tier == 'thorough':
        cs += [
            dict(stages=[1], init_fail=False, work_fail=False, callers=2, batch_size=2, capacity=2),
            dict(stages=[1], init_fail=False, work_fail=False, callers=1, batch_size=3, capacity=2, cycles=2),
            dict(stages=[1, 1], init_fail=False, work_fail=True, callers=1, batch_size=2, batch_stage=1, capacity=2),
        ]
    return cs


def run(tier):
    t0 = time.time()
    known = load_known(PID)
    jobs = [(run_b_job, ({'property': PID, 'scenario': S, 'params': p, 'known': known},
                         1800 if tier == 'thorough' else 1500)) for p in configs(tier)]
    T = 600 if tier == 'thorough' else 200
    for f in conditions_of('harness.C09_batch'):
        jobs.append((run_condition, ({'module': 'harness.C09_batch', 'func': f, 'timeout': T, 'property': PID},)))
    results = run_jobs(jobs)
    for r in results:
        if 'module' in (r.get('spec') or {}):
            r['spec'] = {'params': r['spec']}
    return finish(
        PID, tier, 'model_checking', results, t0,
        explanation='Engine B: the real Worker._start_batch (collector thread _build_input_batches, _get_input_batch, get_input, '
                    'stream, zip(uids, outputs)), SingleLane(batch_size+10), the shared queue read lock and the '
                    '_batch_get_called event run inside a real ThreadServlet/Server on thread queues; the instrumented '
                    'Worker.call asserts that it only ever receives a non-empty list of at most batch_size genuine, accepted '
                    'inputs (never an exception value, the end marker or an element rejected by preprocess) and records the batch '
                    'composition, so that "exactly the members of a failing batch fail" is checked by the callers; a lone request '
                    'is always served = the progress query (no trap while a request is pending). Engine A (CrossHair): '
                    '_get_input_batch alone on a stub buffer with symbolic arrival gaps and a virtual clock (batches AND release '
                    'times vs the documented rule), and _start_single with batch_size 0/1 ([x] wrapping, y[0] unwrapping, '
                    'rejected elements never reach call).',
        assumptions=['thread queues; `_SimpleThreadQueue` = SimpleQueue + RLock by contract', 'abstract time in Engine B (a timed '
                     'get may expire whenever the buffer is empty); exact timing only in the Engine A unit (zero compute time)'],
        outside=['the collector\'s `buffer.full()`-then-wait path needs batch_size + 10 queued items (beyond the bounds)',
                 'two workers competing for the queue, the in-worker thread pool (num_stream_threads)',
                 'more than 2 concurrent requests with batching'])
