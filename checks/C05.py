"""C05 — streams end cleanly on early stop or failure (Engine B)."""
import time

from .common import finish, load_known, run_b_job, run_jobs

PID = 'C05'


def configs(tier):
    cs = []
    B = 'models.buffer_scn:BufferScn'
    F = 'models.fifo_scn:FifoScn'
    for N, ms in ((1, 1), (2, 1), (2, 2)) + (((3, 2), (3, 1), (3, 3)) if tier == 'thorough' else ()):
        cs.append((B, dict(N=N, maxsize=ms, fail_kinds=2)))
    for N, c, cap in ((2, 1, 1), (2, 1, None)) + (((3, 1, 2), (3, 2, None)) if tier == 'thorough' else ()):
        cs.append((F, dict(N=N, concurrency=c, capacity=cap, may_stop=True, src_fail=True, fn_fail=True)))
        cs.append((F, dict(N=N, concurrency=c, capacity=cap, may_stop=True, pre_fail=True, fn_fail=False,
                           return_exceptions=True)))
    # a long tail after an early stop: the feeder can refill the hand-off queue after the consumer drained it
    cs.append((F, dict(N=4, concurrency=1, capacity=1, lazy_take=1, fn_fail=False)))
    if tier == 'thorough':
        cs.append((F, dict(N=5, concurrency=1, capacity=2, lazy_take=1, fn_fail=False)))
        cs.append((F, dict(N=5, concurrency=1, capacity=1, lazy_take=2, fn_fail=True)))
    return cs


def run(tier):
    t0 = time.time()
    known = load_known(PID)
    jobs = []
    for scn, params in configs(tier):
        spec = {'property': PID, 'scenario': scn, 'params': params, 'known': known}
        jobs.append((run_b_job, (spec, 1800 if tier == 'thorough' else 900)))
    results = run_jobs(jobs)
    return finish(
        PID, tier, 'model_checking', results, t0,
        explanation='Real Buffer / fifo_stream / Parmapper code executed thread-modularly on symbolic primitives; '
                    'stop position, failure position, failure site and failure kind (Exception / StopRequested) are '
                    'symbolic inputs, the schedule is unconstrained. Violation = deadlock state (nothing can move, '
                    'someone not finished), a worker thread alive after close, or an output/exception that is not '
                    'the documented one. Decided by solver queries: initiation, consecution and safety of a learned '
                    'state set (an inductive invariant), plus a reachability twin.',
        assumptions=['stub contracts of Lock, deque, Event, Future, Thread, executor (DESIGN.md 2.2); Condition is '
                     "CPython's own code re-bound onto the stub Lock/deque",
                     'process executors behave like thread executors (submit/Future contract only)',
                     'payload-oblivious code: element values are distinct opaque tokens'],
        outside=['N beyond the listed bounds', 'KeyboardInterrupt/SystemExit', 'GC-triggered close (modelled as close() at loop exit)',
                 'child processes of process pools'])
