"""Shared by C02, C06, C07: configurations of models/server_scn.py."""
import time

from .common import finish, load_known, run_b_job, run_jobs

S = 'models.server_scn:ServerScn'

ASSUME = ['the servlet is a stub worker thread answering (uid, x) with (uid, RES(x)) or an exception at an arbitrary later '
          'step, over the thread-queue transport (`_input_buffer is _q_in`)',
          'request ids: id(future) is replaced by an injective function of the future (identifier reuse is outside this model)',
          'a finite timeout may expire at any step (time is abstract); an infinite timeout never does',
          'stub contracts of Lock/RLock, deque, SimpleQueue, Future, Thread, dict (atomic single operations)']
OUTSIDE = ['more callers / larger capacity than listed', 'AsyncServer (asyncio event loop not modelled in this round)',
           'process-backed queues and real servlets (see C04/C09/C11 for the worker side)']


def run(pid, tier, configs, explanation, extra_jobs=()):
    t0 = time.time()
    known = load_known(pid)
    jobs = []
    for c in configs:
        scn, p = (c if isinstance(c, tuple) else (S, c))
        jobs.append((run_b_job, ({'property': pid, 'scenario': scn, 'params': p, 'known': known},
                                 1800 if tier == 'thorough' else 1500)))
    jobs += list(extra_jobs)
    results = run_jobs(jobs)
    for r in results:
        if 'module' in (r.get('spec') or {}):
            r['spec'] = {'params': r['spec']}
    return finish(pid, tier, 'model_checking', results, t0, explanation=explanation, assumptions=ASSUME,
                  outside=OUTSIDE)
