"""Entry point of every registered check."""
import argparse
import importlib
import json
import os
import sys
import time


def main():
    ap = argparse.ArgumentParser()
    ap.add_argument('property')
    ap.add_argument('--tier', default=os.environ.get('VERIF_TIER', 'quick'))
    ap.add_argument('--replay')
    a = ap.parse_args()
    if a.replay:
        body = json.load(open(a.replay))
        if body.get('engine') == 'B':
            from engine_b.job import replay_file
            body, rep = replay_file(a.replay)
            print(json.dumps({'replay': a.replay, 'kind': body['kind'], 'where': body['where'], **rep}, indent=1, default=str))
            sys.stdout.flush()
            os._exit(0 if rep['reproduced'] else 3)
        else:
            from engine_a.driver import replay_file
            sys.exit(replay_file(a.replay))
    mod = importlib.import_module(f'checks.{a.property}')
    code = mod.run(a.tier)
    sys.stdout.flush()
    os._exit(code)


if __name__ == '__main__':
    main()
