"""Shared driver of all property checks: run jobs in parallel, apply the verdict protocol,
handle known findings, write evidence."""
from __future__ import annotations

import concurrent.futures as cf
import hashlib
import json
import os
import subprocess
import sys
import time

VERIF = os.path.dirname(os.path.dirname(os.path.abspath(__file__)))
PY = next((p_ for p_ in (os.path.join(VERIF, '.venv', 'bin', 'python'), '/verif/.venv/bin/python')
           if os.path.exists(p_)), '/verif/.venv/bin/python')
REPO = os.environ.get('MPSERVICE_REPO', '/repo')


def load_known(pid):
    p = os.path.join(VERIF, 'known_findings.json')
    if not os.path.exists(p):
        return []
    data = json.load(open(p))
    return [e for e in data.get('findings', []) if e.get('property') == pid and e.get('status') == 'known']


def src_hash(files):
    h = hashlib.sha1()
    for f in files:
        p = os.path.join(REPO, f)
        if os.path.exists(p):
            h.update(open(p, 'rb').read())
    return h.hexdigest()[:12]


def run_b_job(spec, timeout_s):
    env = dict(os.environ)
    env['PYTHONPATH'] = VERIF + os.pathsep + env.get('PYTHONPATH', '')
    env.setdefault('PYTHONHASHSEED', '0')
    t0 = time.time()
    try:
        p = subprocess.run([PY, '-m', 'engine_b.job', json.dumps(spec)], cwd=VERIF, env=env,
                           capture_output=True, text=True, timeout=timeout_s)
        for line in p.stdout.splitlines()[::-1]:
            if line.startswith('RESULT '):
                r = json.loads(line[7:])
                break
        else:
            r = {'verdict': 'inconclusive', 'reason': 'no result from job: ' + (p.stderr or p.stdout)[-800:]}
    except subprocess.TimeoutExpired:
        r = {'verdict': 'inconclusive', 'reason': f'job timed out after {timeout_s}s'}
    r.setdefault('spec', {k: v for k, v in spec.items() if k != 'known'})
    r['job_wall_s'] = round(time.time() - t0, 2)
    return r


def run_jobs(jobs, workers=None):
    """jobs: list of (callable, args).  Returns results in order."""
    workers = workers or min(16, max(1, (os.cpu_count() or 4)))
    with cf.ThreadPoolExecutor(workers) as ex:
        futs = [ex.submit(f, *a) for f, a in jobs]
        return [f.result() for f in futs]


def finish(pid, tier, level, results, t0, explanation, assumptions, outside, extra_cov=None,
           functions=None):
    """Apply the verdict protocol to the job results; write evidence; print lines; return exit code."""
    violations = [r for r in results if r.get('verdict') == 'violation']
    inconcl = [r for r in results if r.get('verdict') not in ('violation', 'holds')]
    holds = [r for r in results if r.get('verdict') == 'holds']
    # thorough tier only: a configuration whose job ran out of its wall-time budget was not explored to the end; it is
    # reported as such (NOTE line, evidence) and is not part of the claim — it is neither a success nor a defect of the
    # check.  Every other inconclusive outcome (non-reproducing counterexample, solver unknown, unsupported use, ...)
    # still makes the check exit 2, and the quick tier treats a time-out as inconclusive as well.
    unfinished = []
    if tier == 'thorough' and holds:
        budget = ('job timed out', 'solver answered unknown / timed out', 'reduced product has more than')
        unfinished = [r for r in inconcl if str(r.get('reason', '')).startswith(budget)]
        inconcl = [r for r in inconcl if r not in unfinished]
    known_lines = []
    for r in results:
        for kh in r.get('known_hits', []) or []:
            line = f"KNOWN-FINDING: property={pid} {kh.get('id')}: {kh.get('what')}"
            if line not in known_lines:
                known_lines.append(line)
    for ln in known_lines:
        print(ln)
    queries = sum(len(r.get('queries') or []) for r in results)
    solver_s = sum((r.get('solver_s') or 0) for r in results)
    replays_ok = sum((r.get('replays_ok') or 0) for r in results)
    samples = []
    for r in results[:6]:
        samples.append({
            'config': r.get('spec', {}).get('params') or r.get('spec'),
            'verdict': r.get('verdict'), 'reason': r.get('reason'),
            'bounds': {'K_steps': r.get('K'), 'K_is_structural_bound': r.get('K_is_structural_bound')},
            'queries': r.get('queries'), 'automata': r.get('product'), 'explore': r.get('explore'),
            'witness': r.get('witness_sample'), 'known_hits': r.get('known_hits'),
            'counterexample': r.get('cex'),
        })
    fnset = set(functions or [])
    for r in results:
        fnset.update(r.get('functions') or [])
    cov = {
        'evaluations': max(1, queries),
        'distinct_nontrivial': len(holds) + len(violations),
        'rule': 'one evaluation = one solver query discharged (violation-or-frontier / bound / witness, or one '
                'CrossHair condition); a configuration is non-trivial when its reachability twin was '
                'satisfiable (a complete correct run exists) and that run replayed on the real code',
        'samples': samples,
        'traces_validated_against_impl': replays_ok,
        'explanation': explanation,
        'functions_encoded': sorted(fnset),
        'source_hash': src_hash(sorted(set(f.split(':')[0] for f in fnset if f.startswith('mpservice/')))) if fnset else None,
        'configurations': len(results),
        'configurations_holding': len(holds),
        'configurations_inconclusive': len(inconcl),
        'configurations_not_completed_within_budget': [r.get('spec', {}).get('params') for r in unfinished],
        'solver_time_s': round(solver_s, 1),
        'known_findings_refound': known_lines,
        'outside_the_claim': outside,
        'exhaustive': False,
    }
    if extra_cov:
        cov.update(extra_cov)
    ev = {
        'property_id': pid, 'tier': tier, 'seed': int(os.environ.get('VERIF_SEED', '0') or 0),
        'level': level, 'coverage': cov, 'assumptions': assumptions,
        'wall_s': round(time.time() - t0, 1), 'violations': len(violations),
    }
    evdir = os.environ.get('VERIF_EVIDENCE_DIR') or os.path.join(VERIF, 'evidence')
    os.makedirs(evdir, exist_ok=True)
    with open(os.path.join(evdir, f'{pid}.json'), 'w') as f:
        json.dump(ev, f, indent=1, default=str)
    if violations:
        for r in violations:
            print(f"VIOLATION property={pid} replay={r.get('replay_file')}")
            c = r.get('cex') or {}
            print(f"  config={r.get('spec', {}).get('params')} kind={c.get('kind')} inputs={c.get('inputs')} "
                  f"observed={c.get('observed')}")
            for t, w in (c.get('where') or {}).items():
                print(f'    [{t}] {w}')
        return 1
    if inconcl:
        for r in inconcl:
            print(f"INCONCLUSIVE property={pid} config={r.get('spec', {}).get('params')} reason={r.get('reason')}")
        return 2
    for r in unfinished:
        print(f"NOTE property={pid} configuration not completed within its time budget (not claimed): "
              f"{r.get('spec', {}).get('params')}")
    print(f'OK property={pid} tier={tier}: {len(holds)} configurations hold within their bounds '
          f'({queries} queries, solver {solver_s:.0f}s, {replays_ok} traces replayed on the real code)')
    return 0
