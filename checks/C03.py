"""C03 — stream pipelines equal their sequential meaning (Engine A)."""
import os

from . import _a
from .common import VERIF

PID = 'C03'


def run(tier):
    from harness import C03_gen
    scratch = os.path.join(VERIF, '.scratch')
    name = 'c03_gen_' + tier
    # thorough = every skeleton of length <= 3 over lists of <= 4 elements, plus every skeleton of length <= 2 over lists of
    # <= 5 (all length-3 skeletons over 5 elements ran for more than an hour on 16 cores: sized by wall time)
    n = C03_gen.generate(os.path.join(scratch, name + '.py'), 3 if tier == 'thorough' else 2, 4)
    mods = [name, 'harness.C03_extra']
    if tier == 'thorough':
        n = n + C03_gen.generate(os.path.join(scratch, name + '_long.py'), 2, 5)
        mods.insert(1, name + '_long')
    import sys
    if scratch not in sys.path:
        sys.path.insert(0, scratch)
    return _a.run(
        PID, tier, mods,
        explanation=f'{len(n)} generated conditions, one per operator skeleton (all sequences of length <= '
                    f'{3 if tier == "thorough" else 2} over map, filter, head, tail, accumulate, batch+unbatch, batch+map(len), '
                    'batch+head+unbatch, batch+tail+unbatch, groupby, peek), plus hand-written conditions for exception '
                    'objects/filter_exceptions, peek over plain values / never-raised / raised exception objects (identity of every element), nested lists, batches of batches and shuffle. Inside a condition the element '
                    'list and every parameter are symbolic; CrossHair executes the real Stream operators and a reference of '
                    'the documented sequential meaning and compares; building the pipeline must pull 0 source elements; for '
                    'one-to-one chains taking k outputs must pull at most k+1.',
        assumptions=['buffer() and parmap() do not appear in these chains: their equivalence with identity/map is what C01, C05 '
                     'and C08 establish for the threaded implementation (assume-guarantee)',
                     'tail n and exception catalogue indices are concretised by branching (they reach C code)',
                     'random.randrange/shuffle are replaced by a symbolic choice list in the shuffle condition'],
        outside=['lists longer than the `pre:` bound (4; 5 for skeletons of length <= 2 in thorough), skeletons longer than 2 quick / 3 thorough',
                 'groupby groups consumed late', 'non-integer payload arithmetic'],
        timeout_quick=300, timeout_thorough=400,
        functions=['mpservice/streamer/_streamer.py:' + c for c in (
            'Stream.map', 'Stream.filter', 'Stream.filter_exceptions', 'Stream.peek', 'Stream.head', 'Stream.tail',
            'Stream.groupby', 'Stream.batch', 'Stream.unbatch', 'Stream.accumulate', 'Stream.shuffle', 'Stream.collect',
            'Stream.drain', 'Stream.__iter__', 'Mapper.__iter__', 'Filter.__iter__', 'Header.__iter__', 'Tailer.__iter__',
            'Grouper.__iter__', 'Batcher.__iter__', 'Unbatcher.__iter__', 'Shuffler.__iter__')])
