"""C02 — every request gets its own result (Engine B: ledger races and pairing through Server)."""
from . import _server

PID = 'C02'


def configs(tier):
    cs = [
        dict(callers=['inf', 'inf'], capacity=2, backpressure=False, work_fail=True),
        dict(callers=['inf'], capacity=1, backpressure=False),
        dict(callers=[], capacity=2, backpressure=False, stream=[2, None]),
    ]
    if tier == 'thorough':
        cs += [
            dict(callers=['inf', 'inf', 'inf'], capacity=3, backpressure=False, work_fail=True),
            dict(callers=['inf', 'inf'], capacity=1, backpressure=False, work_fail=True),
            dict(callers=[], capacity=1, backpressure=False, stream=[3, None]),
            dict(callers=[], capacity=2, backpressure=False, stream=[3, None], work_fail=False),
        ]
    return cs


def run(tier):
    return _server.run(PID, tier, configs(tier),
                       'Every caller thread checks that what Server.call returned is RES(its own x) (or its own failure); '
                       'the stream driver checks order and pairing with return_x. A response dropped by the gather thread '
                       'shows as an `inf` caller blocked forever (deadlock) — the ledger race of the pinned tree was found '
                       'this way and repaired.')
