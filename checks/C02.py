"""C02 — every request gets its own result (Engine B: ledger races and pairing through Server)."""
from . import _server

PID = 'C02'


def configs(tier):
    cs = [
        dict(callers=['inf', 'inf'], capacity=2, backpressure=False, work_fail=True),
        dict(callers=['inf'], capacity=1, backpressure=False),
        dict(callers=[], capacity=2, backpressure=False, stream=[2, None]),
        # pairing inside the real worker loop (Worker._start_single: ids of inputs handed to stream() are paired
        # FIFO with its outputs) with preprocess rejections and failures, two concurrent callers
        ('models.servlet_scn:ServletScn', dict(stages=[1], init_fail=False, work_fail=True, pre_fail=True, callers=2)),
        # composition semantics: ensemble = list of the members' results in member order (a member with two workers answers
        # out of order), switch = the selected member; ids are never crossed between two requests in flight
        ('models.ensemble_scn:EnsembleScn', dict(kind='ensemble', members=2, requests=2, fail_fast=True, member_fail=False,
                                                 member_threads=2)),
        ('models.ensemble_scn:EnsembleScn', dict(kind='switch', members=2, requests=2, member_fail=False)),
    ]
    if tier == 'thorough':
        cs += [
            ('models.servlet_scn:ServletScn', dict(stages=[2], init_fail=False, work_fail=False, pre_fail=True, callers=3, capacity=3)),
            ('models.servlet_scn:ServletScn', dict(stages=[1, 1], init_fail=False, work_fail=True, pre_fail=True, callers=2)),
            dict(callers=['inf', 'inf', 'inf'], capacity=3, backpressure=False, work_fail=True),
            dict(callers=['inf', 'inf'], capacity=1, backpressure=False, work_fail=True),
            dict(callers=[], capacity=1, backpressure=False, stream=[3, None]),
            dict(callers=[], capacity=2, backpressure=False, stream=[3, None], work_fail=False),
            ('models.ensemble_scn:EnsembleScn', dict(kind='ensemble', members=2, requests=2, fail_fast=False, member_fail=True,
                                                     member_threads=2, cycles=2)),
            ('models.ensemble_scn:EnsembleScn', dict(kind='switch', members=3, requests=3, member_fail=False)),
            # a batching stage downstream of a failing stage (an upstream failure must not join a batch of other requests)
            ('models.servlet_scn:ServletScn', dict(stages=[1, 1], init_fail=False, work_fail=True, callers=1, batch_size=2,
                                                   batch_stage=1, capacity=2)),
        ]
    return cs


def run(tier):
    from engine_a.driver import run_condition
    unit = [(run_condition, ({'module': 'harness.C09_batch', 'func': 'check_build_input_batches',
                              'timeout': 600 if tier == 'thorough' else 200, 'property': PID},))]
    return _server.run(PID, tier, configs(tier), extra_jobs=unit, explanation=
                       'Every caller thread checks that what Server.call returned is RES(its own x) (or its own failure); '
                       'the stream driver checks order and pairing with return_x. A response dropped by the gather thread '
                       'shows as an `inf` caller blocked forever (deadlock) — the ledger race of the pinned tree was found '
                       'this way and repaired.')
