"""C17 — IterableQueue delivers every item once and every consumer finishes (Engine B)."""
import time

from .common import finish, load_known, run_b_job, run_jobs

PID = 'C17'
Q = 'models.iterq_scn:IterQScn'


def configs(tier):
    cs = [
        dict(suppliers=1, consumers=2, items=1, rounds=2),
        dict(suppliers=2, consumers=1, items=1, rounds=2),
        dict(suppliers=2, consumers=2, items=1, rounds=1),
        dict(suppliers=1, consumers=1, items=2, stop=True),
        dict(suppliers=1, consumers=2, items=1, stop=True, abandon=True),
        # a bounded data queue behind the responsive wrapper: puts wait (and must keep waiting, or react to the stop)
        dict(suppliers=1, consumers=1, items=2, stop=True, maxsize=1),
    ]
    if tier == 'thorough':
        cs += [
            dict(suppliers=2, consumers=2, items=2, rounds=1),
            dict(suppliers=1, consumers=3, items=2, rounds=2),
            dict(suppliers=3, consumers=1, items=1, rounds=2),
            dict(suppliers=2, consumers=2, items=1, stop=True),
            dict(suppliers=1, consumers=2, items=2, rounds=2, maxsize=1),
        ]
    return cs


def run(tier):
    t0 = time.time()
    known = load_known(PID)
    jobs = [(run_b_job, ({'property': PID, 'scenario': Q, 'params': p, 'known': known},
                         1800 if tier == 'thorough' else 1200)) for p in configs(tier)]
    results = run_jobs(jobs)
    return finish(
        PID, tier, 'model_checking', results, t0,
        explanation='Real IterableQueue.put/put_end/__next__/__iter__/renew and ResponsiveQueue.get/put/_get_put with supplier and '
                    'consumer threads; the driver compares the multiset received with the multiset put (no loss, no '
                    'duplicate), requires every consumer loop to end, calls renew() and requires the data queue to be empty '
                    '(no end marker leaks into the next round), then runs the next round. With a stop request (set at a '
                    'symbolic moment, or mandatory when the suppliers never call put_end) blocked gets must end with '
                    'StopRequested: a consumer polling forever is a trap excluded by the progress query.',
        assumptions=['queue.Queue contract (atomic bounded FIFO; full()/empty()/qsize() are racy reads)',
                     'multiprocessing.Queue (used for the token queues whenever to_stop is given) follows the same contract; '
                     'its approximate qsize()/full() across processes are outside the model',
                     'time is abstract: a timed get may time out whenever the queue is empty; the wait-interval bound of the '
                     'stop reaction is therefore not measured, only that the reaction happens'],
        outside=['process-backed data queues', 'more than 3 suppliers/consumers, more than 2 rounds'])
