"""C06 — backlog never exceeds capacity; slots are always returned (Engine B)."""
from . import _server

PID = 'C06'


def configs(tier):
    cs = [
        dict(callers=['inf', 'inf', 'inf'], capacity=1, backpressure=False, check_backlog=True),
        dict(callers=['inf', 'fin'], capacity=1, backpressure='sym', check_backlog=True),
        dict(callers=[], capacity=1, backpressure=False, check_backlog=True, stream=[2, 1]),
    ]
    if tier == 'thorough':
        cs += [
            dict(callers=['inf', 'inf', 'fin'], capacity=1, backpressure=False, check_backlog=True),
            dict(callers=['inf', 'inf', 'inf'], capacity=2, backpressure=False, check_backlog=True),
            dict(callers=['inf', 'fin', 'fin'], capacity=2, backpressure='sym', check_backlog=True),
            dict(callers=[], capacity=1, backpressure=False, check_backlog=True, stream=[3, 1]),
            dict(callers=['inf', 'inf'], capacity=1, backpressure=False, check_backlog=True, work_fail=True),
        ]
    return cs


def run(tier):
    from engine_a.driver import run_condition
    # time is abstract in the model above; the waiting-time bound is checked on the real _enqueue under a virtual clock
    unit = [(run_condition, ({'module': 'harness.C06_wait', 'func': 'check_enqueue_waits_no_longer_than_timeout',
                              'timeout': 900 if tier == 'thorough' else 300, 'property': PID},))]
    return _server.run(PID, tier, configs(tier), extra_jobs=unit, explanation=
                       'Real Server._enqueue/_wait_for_result/_gather_output/stream/__exit__ with the ledger as a symbolic '
                       'dict. State invariant len(ledger) <= capacity on every state of the inductive invariant; a '
                       'ServerBacklogFull without back-pressure and without a deadline is a FAIL; after all callers and '
                       'streams ended and the server exited, backlog must be 0 (slots of failed, timed-out, cancelled and '
                       'abandoned requests are returned). Unit (CrossHair, harness/C06_wait.py): the real Server._enqueue '
                       'on a stub condition with a virtual clock; the timeout, the instants of up to 3 notifications and which '
                       'wake-ups find the freed slot already taken again are symbolic; whatever the outcome the caller is held no '
                       'longer than its timeout, an accepted request is recorded and published once, a rejected one leaves no '
                       'trace.')
