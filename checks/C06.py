"""C06 — backlog never exceeds capacity; slots are always returned (Engine B)."""
from . import _server

PID = 'C06'


def configs(tier):
    cs = [
        dict(callers=['inf', 'inf', 'inf'], capacity=1, backpressure=False, check_backlog=True),
        dict(callers=['inf', 'fin'], capacity=1, backpressure='sym', check_backlog=True),
        dict(callers=[], capacity=1, backpressure=False, check_backlog=True, stream=[2, 1]),
    ]
    if tier == 'thorough':
        cs += [
            dict(callers=['inf', 'inf', 'fin'], capacity=1, backpressure=False, check_backlog=True),
            dict(callers=['inf', 'inf', 'inf'], capacity=2, backpressure=False, check_backlog=True),
            dict(callers=['inf', 'fin', 'fin'], capacity=2, backpressure='sym', check_backlog=True),
            dict(callers=[], capacity=1, backpressure=False, check_backlog=True, stream=[3, 1]),
            dict(callers=['inf', 'inf'], capacity=1, backpressure=False, check_backlog=True, work_fail=True),
        ]
    return cs


def run(tier):
    return _server.run(PID, tier, configs(tier),
                       'Real Server._enqueue/_wait_for_result/_gather_output/stream/__exit__ with the ledger as a symbolic '
                       'dict. State invariant len(ledger) <= capacity on every state of the inductive invariant; a '
                       'ServerBacklogFull without back-pressure and without a deadline is a FAIL; after all callers and '
                       'streams ended and the server exited, backlog must be 0 (slots of failed, timed-out, cancelled and '
                       'abandoned requests are returned).')
