"""C15 — exceptions keep type, args and traceback text across processes (Engine A)."""
from . import _a

PID = 'C15'


def run(tier):
    return _a.run(
        PID, tier, ['harness.C15_remote'],
        explanation='Real RemoteException.__init__/__reduce__, _rebuild_exception, is_remote_exception, get_remote_traceback and '
                    'EnsembleError driven through real pickle round trips. Exception class (6-entry catalogue: multi-arg builtin, '
                    'KeyError, custom __init__ + __reduce__, OSError, ZeroDivisionError, chained cause), raise depth, number of hops '
                    'and the per-hop re-raise mask are chosen by the solver; after every hop type, args, is_remote_exception and '
                    '"original formatted traceback is contained in the remote text" are asserted, and identical text when the '
                    'exception was only forwarded. A second condition nests the exception in an EnsembleError at either position.',
        assumptions=['the solver only selects among finitely many control choices; exception objects are concrete because pickle and '
                     'traceback are C/stdlib: the claim is "for every combination in the catalogue"',
                     'one process: the process boundary is the pickle round trip'],
        outside=['exception classes beyond the catalogue', 'more than 3 hops, raise depth > 3'],
        timeout_quick=450, timeout_thorough=900,
        functions=['mpservice/multiprocessing/remote_exception.py:' + f for f in (
            'RemoteException.__init__', 'RemoteException.__reduce__', '_rebuild_exception', 'is_remote_exception',
            'get_remote_traceback', 'EnsembleError.__init__', 'EnsembleError.__reduce__')])
