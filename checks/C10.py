"""C10 — tee forks see identical streams and cannot wedge each other (Engine B)."""
import time

from .common import finish, load_known, run_b_job, run_jobs

PID = 'C10'
T = 'models.tee_scn:TeeScn'


def configs(tier):
    cs = [
        dict(N=0, forks=2, buffer_size=2, may_fail=True),
        dict(N=1, forks=2, buffer_size=2, may_fail=True),
        dict(N=2, forks=2, buffer_size=2, may_fail=True),
        dict(N=3, forks=2, buffer_size=2, may_fail=False),
    ]
    if tier == 'thorough':
        cs += [
            dict(N=3, forks=2, buffer_size=2, may_fail=True),
            dict(N=4, forks=2, buffer_size=2, may_fail=False, lookahead=True),
            dict(N=2, forks=3, buffer_size=2, may_fail=True),
            dict(N=3, forks=3, buffer_size=2, may_fail=False),
        ]
    return cs


def run(tier):
    t0 = time.time()
    known = load_known(PID)
    jobs = [(run_b_job, ({'property': PID, 'scenario': T, 'params': p, 'known': known},
                         1800 if tier == 'thorough' else 1200)) for p in configs(tier)]
    results = run_jobs(jobs)
    return finish(
        PID, tier, 'model_checking', results, t0,
        explanation='Real Fork.__next__ / tee() / TeeX.__init__; every TeeX field (value, next, n, lock), head.value and the '
                    'source position are shared symbolic cells, so a fork can be preempted between any two field accesses. '
                    'Each fork thread checks that it received the source prefix and the source\'s own ending (exhaustion or '
                    'the exception raised at a symbolic position); counters give pulled - received_i <= buffer_size + 2 as a '
                    'state invariant; deadlocks and spin traps (a fork polling a leaked lock forever) are excluded by the '
                    'safety and progress queries.',
        assumptions=['queue.Queue contract (atomic bounded FIFO), Lock with timed acquire, atomic attribute reads/writes',
                     'the timed-acquire polling loop is a cycle of state-preserving steps (no bound on its iterations)',
                     'the source is an iterator whose position is one shared cell (pulled under the lock by the code)'],
        outside=['more than 3 forks, N beyond the listed values, buffer_size > 3',
                 'consumers that stop consuming (the property assumes every fork keeps being consumed)'])
