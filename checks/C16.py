"""C16 — async variants give the same answers as their sync counterparts (Engine B on the asyncio model)."""
import time

from .common import finish, load_known, run_b_job, run_jobs

PID = 'C16'
A = 'models.afifo_scn:AFifoScn'


def configs(tier):
    cs = [
        dict(N=2, capacity=1, fn_fail=True, return_exceptions=True, return_x=True),
        dict(N=2, capacity=1, fn_fail=True, return_exceptions=False),
        dict(N=2, capacity=1, fn_fail=False, pre_fail=True, return_exceptions=True, return_x=True),
        dict(N=2, capacity=2, fn_fail=True, pre_fail=True, return_exceptions=True),
        dict(N=2, capacity=2, fn_fail=True, return_exceptions=True, parmapper=True),
        # more elements than the hand-off queue holds (capacity + 1): rejections arriving at a full queue
        dict(N=3, capacity=1, fn_fail=False, pre_fail=True, return_exceptions=True),
    ]
    if tier == 'thorough':
        cs += [
            dict(N=3, capacity=1, fn_fail=True, pre_fail=True, return_exceptions=True, return_x=True),
            dict(N=3, capacity=2, fn_fail=True, return_exceptions=False),
            dict(N=3, capacity=2, fn_fail=False, pre_fail=True, return_exceptions=False),
            dict(N=2, capacity=1, fn_fail=True, src_fail=True, may_stop=True, return_exceptions=True),
        ]
    return cs


def run(tier):
    t0 = time.time()
    known = load_known(PID)
    jobs = [(run_b_job, ({'property': PID, 'scenario': A, 'params': p, 'known': known},
                         1800 if tier == 'thorough' else 1200)) for p in configs(tier)]
    results = run_jobs(jobs)
    return finish(
        PID, tier, 'model_checking', results, t0,
        explanation='Real async_fifo_stream (incl. its `feed` task) and AsyncParmapperAsync.__aiter__ on a model of the asyncio '
                    'event loop: every Task is a model thread, the loop is one mutex held by the running task and given up only '
                    'where a real task would suspend (await on an empty/full queue, unset event, pending future/task, sleep), so '
                    'code between suspension points is atomic and the completion order of the worker tasks is the solver\'s '
                    'choice. The oracle is the SAME sequential meaning that C01 checks for the synchronous fifo_stream/Parmapper '
                    '(values, exception objects, order, pairing with inputs, preprocessor rejections): C01 establishes sync = spec '
                    'and this check async = spec over the same symbolic inputs and flags, hence async = sync. Counterexamples are '
                    'replayed on the model threads AND on the real event loop (asyncio.run) with the counterexample\'s inputs.',
        assumptions=['asyncio contract of Queue/Event/Future/Task as modelled in engine_b/aio.py; ready-queue order is '
                     'over-approximated by an arbitrary choice among ready tasks',
                     'cancellation is delivered at the suspension points of the cancelled task; a task blocked inside a queue or '
                     'future wait is not interrupted',
                     'stub contracts of Lock, queue, Event, Future, Thread'],
        outside=['AsyncServer.call/stream vs Server.call/stream (needs call_soon_threadsafe / run_coroutine_threadsafe / wait_for; '
                 'not modelled)', 'AsyncParmapper with a thread/process executor, ParmapperAsync (sync consumer of async workers)',
                 'N > 3'])
