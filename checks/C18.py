"""C18 — socket and pipe transports: record framing and pipe path wiring (Engine A); response matching outside."""
from . import _a

PID = 'C18'


def run(tier):
    return _a.run(
        PID, tier, ['harness.C18_framing'],
        explanation='Real socket.write_record/read_record/encode/decode coroutines are driven by hand over one byte buffer (stub '
                    'StreamReader/Writer, asyncio.wait_for replaced by a pass-through): two consecutive records with SYMBOLIC payload '
                    'bytes (<= 6 bytes each: newlines, spaces and header look-alikes are in range) must parse back to exactly the two '
                    'payloads with the buffer fully consumed; also utf8 strings, a catalogue of header-like payloads and of pickled '
                    'objects. Named pipes: mpservice contributes only the path wiring, checked on an in-memory FIFO stub for every '
                    'short send sequence in both directions.',
        assumptions=['asyncio.StreamReader.readuntil/readexactly contract over a finite buffer', 'pickle itself is trusted',
                     'request ids are concrete (1-char, 5-char, 15-digit)'],
        outside=['matching of responses to futures by request id and per-connection response order under reordering handlers '
                 '(closures of SocketClient._open_connections / SocketServer._handle_connection need an event-loop model; not built)',
                 'data integrity/order of the real OS FIFOs (multiprocessing.connection.Connection + kernel)',
                 'multi-megabyte payloads, real socket back-pressure'],
        timeout_quick=300, timeout_thorough=900,
        functions=['mpservice/socket.py:write_record', 'mpservice/socket.py:read_record', 'mpservice/socket.py:encode',
                   'mpservice/socket.py:decode', 'mpservice/pipe.py:_Pipe.__init__', 'mpservice/pipe.py:_Pipe.send',
                   'mpservice/pipe.py:_Pipe.recv', 'mpservice/pipe.py:_Pipe._get_reader', 'mpservice/pipe.py:Server.__init__',
                   'mpservice/pipe.py:Client.__init__'])
