"""C18 — socket and pipe transports: record framing and pipe wiring (Engine A) + the server's connection handler on the
asyncio model (Engine B); the client's matching of responses to requests is outside."""
import time

from . import _a
from .common import finish, load_known, run_b_job, run_jobs

PID = 'C18'
K = 'models.socket_scn:SocketScn'


def b_configs(tier):
    cs = [dict(kind='server', requests=1, handler_kinds=4, end='eof'),
          dict(kind='server', requests=2, handler_kinds=1, end='eof', backlog=1)]
    if tier == 'thorough':
        cs += [dict(kind='server', requests=2, handler_kinds=3, end='eof'),
               dict(kind='server', requests=3, handler_kinds=1, end='eof', backlog=1)]
    return cs


def run(tier):
    t0 = time.time()
    known = load_known(PID)
    # Engine A part (its own evidence is merged below)
    a_results = _a.run(
        PID, tier, ['harness.C18_framing'], collect_only=True,
        explanation='', assumptions=[], outside=[], timeout_quick=300, timeout_thorough=900, functions=[])
    jobs = [(run_b_job, ({'property': PID, 'scenario': K, 'params': p, 'known': known},
                         1800 if tier == 'thorough' else 1500)) for p in b_configs(tier)]
    b_results = run_jobs(jobs)
    return finish(
        PID, tier, 'model_checking', list(a_results) + list(b_results), t0,
        explanation='(A) Real socket.write_record/read_record/encode/decode coroutines are driven by hand over one byte buffer (stub '
                    'StreamReader/Writer): two consecutive records with SYMBOLIC payload bytes (<= 6 bytes each: newlines, spaces and '
                    'header look-alikes are in range) must parse back to exactly the two payloads with the buffer fully consumed; also '
                    'utf8 strings, a catalogue of header-like payloads and of pickled objects. Named pipes: mpservice contributes only '
                    'the path wiring, checked on an in-memory FIFO stub for every short send sequence in both directions. '
                    '(B) The REAL SocketServer._handle_connection — its _keep_receiving and _keep_responding tasks, the handler tasks '
                    'it creates, write_record/read_record — runs on the asyncio model (engine_b/aio.py: tasks = threads, the loop = one '
                    'mutex released only at suspension points, wait_for = a wait that may time out whenever it cannot complete) over '
                    'stub byte streams; the peer frames its requests with the real write_record and parses the answers with the real '
                    'read_record. What each handler does is symbolic (returns / raises ValueError / raises TimeoutError / returns '
                    'late). Checked: one response per request, in request order, carrying the id of its request and the handler\'s '
                    'own value or exception (class and args); after the peer closes, the handler ends, the connection count is back '
                    'to 0 and nothing but end-of-file follows; no task left spinning with the peer blocked (progress query). '
                    'Counterexamples are replayed on the REAL event loop over a real unix socket (models/socket_real.py).',
        assumptions=['asyncio.StreamReader.readuntil/readexactly contract over a finite buffer', 'pickle itself is trusted',
                     'request ids are concrete (1-char, 5-char, 15-digit; "11", "12" in the model)',
                     'asyncio model: any ready task may run next (over-approximates the FIFO ready queue); StreamWriter.drain() does '
                     'not suspend (payloads below the 64 KiB high-water mark); a timed-out queue get / stream read consumes nothing',
                     'in the model RemoteException pickles to the original class and args without the traceback text (C15\'s subject); '
                     'the real-loop replay uses the real class'],
        outside=['SocketClient: matching of responses to futures by request id over several connections, stream() order (the closures '
                 'of SocketClient._open_connections need threads talking to the loop through SingleLane polling: not built)',
                 'the /shutdown request: the model shows that a poll of the responder expiring exactly when the shutdown request is '
                 'queued makes the server drop the answer to that request; the race could not be forced on the real event loop, so it '
                 'is reported neither as a violation nor as a finding, and connections end by end-of-file in the configurations',
                 'several connections at once; data integrity/order of the real OS FIFOs and sockets; multi-megabyte payloads and real '
                 'socket back-pressure'],
        functions=['mpservice/socket.py:write_record', 'mpservice/socket.py:read_record', 'mpservice/socket.py:encode',
                   'mpservice/socket.py:decode', 'mpservice/pipe.py:_Pipe.__init__', 'mpservice/pipe.py:_Pipe.send',
                   'mpservice/pipe.py:_Pipe.recv', 'mpservice/pipe.py:_Pipe._get_reader', 'mpservice/pipe.py:Server.__init__',
                   'mpservice/pipe.py:Client.__init__', 'mpservice/socket.py:SocketServer._handle_connection',
                   'mpservice/socket.py:SocketApplication.handle_request'])
