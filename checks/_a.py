"""Shared runner of Engine-A (CrossHair) checks."""
import os
import sys
import time

from engine_a.driver import conditions_of, run_condition

from .common import finish, run_jobs, VERIF


def load_known_a(pid):
    import json
    p = os.path.join(VERIF, 'known_findings.json')
    if not os.path.exists(p):
        return []
    return [e for e in json.load(open(p)).get('findings', [])
            if e.get('property') == pid and e.get('status') == 'known' and e.get('engine') == 'A']


def run(pid, tier, modules, explanation, assumptions, outside, timeout_quick=90, timeout_thorough=600,
        thorough_modules=(), functions=None, level='other', collect_only=False):
    t0 = time.time()
    known = load_known_a(pid)
    T = timeout_thorough if tier == 'thorough' else timeout_quick
    jobs = []
    mods = list(modules) + (list(thorough_modules) if tier == 'thorough' else [])
    for m in mods:
        for f in conditions_of(m):
            jobs.append((run_condition, ({'module': m, 'func': f, 'timeout': T, 'property': pid, 'known': known},)))
    results = run_jobs(jobs, workers=min(14, max(1, len(jobs))))
    for r in results:
        r['spec'] = {'params': r['spec']}
    if collect_only:
        return results   # the caller merges them with results of the other engine
    return finish(pid, tier, level, results, t0, explanation=explanation, assumptions=assumptions, outside=outside,
                  functions=functions,
                  extra_cov={'rule': 'one evaluation = one CrossHair run (a harness condition or its reachability twin); a '
                                     'condition is non-trivial when CrossHair answered "Confirmed over all paths" for it AND '
                                     'its twin (post negated) was refuted, i.e. a passing input exists; that input is also '
                                     'executed concretely on the real code'})
