"""C04 — a failing request fails alone, with its original error (Engine B over the real workers; partial)."""
import time

from .common import finish, load_known, run_b_job, run_jobs

PID = 'C04'
S = 'models.servlet_scn:ServletScn'


def configs(tier):
    cs = [
        dict(stages=[1], init_fail=False, work_fail=True, pre_fail=True, callers=2),
        dict(stages=[1, 1], init_fail=False, work_fail=True, callers=2, validate_all=True),
        dict(stages=[2], init_fail=False, work_fail=True, callers=2),
    ]
    if tier == 'thorough':
        cs += [
            dict(stages=[1, 1], init_fail=False, work_fail=True, pre_fail=True, callers=2),
            dict(stages=[2, 1], init_fail=False, work_fail=True, callers=2),
            dict(stages=[1], init_fail=False, work_fail=True, pre_fail=True, callers=3, capacity=3),
        ]
    return cs


def run(tier):
    t0 = time.time()
    known = load_known(PID)
    jobs = [(run_b_job, ({'property': PID, 'scenario': S, 'params': p, 'known': known},
                         3300 if tier == 'thorough' else 1500)) for p in configs(tier)]
    results = run_jobs(jobs)
    return finish(
        PID, tier, 'model_checking', results, t0,
        explanation='Real Worker._start_single/stream/call (per-element try/except, preprocess short-circuit, RemoteException '
                    'wrapping), SequentialServlet wiring (a stage short-circuits exception values to its output), gather unwrapping '
                    '(`y.exc`, set_exception) and Server.call, with concurrent caller threads. Which request fails, at which site '
                    '(preprocess, call of stage s) is a symbolic input per request; every caller checks that it received exactly '
                    'its own outcome: the original exception type and args with a traceback that names the failing function, or '
                    'the composed result — so a failure of one request never changes the outcome of another.',
        assumptions=['thread-backed servlets: the exception object travels by reference (the process hop = pickling is C15\'s subject)',
                     'stub contracts of the primitives; servlet trees: plain and sequential'],
        outside=['EnsembleServlet fail_fast / all-failed rules and SwitchServlet routing (not modelled in this round)',
                 'batched calls ("exactly the members of that batch fail"): batching threads are not modelled in this round',
                 'process boundary: traceback as text after pickling (see C15)'])
