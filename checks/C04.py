"""C04 — a failing request fails alone, with its original error (Engine B over the real workers; partial)."""
import time

from engine_a.driver import run_condition

from .common import finish, load_known, run_b_job, run_jobs

PID = 'C04'
S = 'models.servlet_scn:ServletScn'
E = 'models.ensemble_scn:EnsembleScn'


def configs(tier):
    cs = [
        dict(stages=[1], init_fail=False, work_fail=True, pre_fail=True, callers=2),
        dict(stages=[1, 1], init_fail=False, work_fail=True, callers=2, validate_all=True),
        dict(stages=[2], init_fail=False, work_fail=True, callers=2),
        # ensemble rules (fail_fast / all failed / partial lists) and switch routing: real EnsembleServlet / SwitchServlet
        # threads between member servlets that follow the servlet contract
        (E, dict(kind='ensemble', members=2, requests=1, fail_fast=True, member_fail=True, upstream_fail=True)),
        (E, dict(kind='ensemble', members=2, requests=1, fail_fast=False, member_fail=True)),
        (E, dict(kind='switch', members=2, requests=2, member_fail=True, upstream_fail=True)),
    ]
    if tier == 'thorough':
        cs += [
            (E, dict(kind='ensemble', members=2, requests=2, fail_fast=True, member_fail=True)),
            (E, dict(kind='ensemble', members=2, requests=2, fail_fast=False, member_fail=True, upstream_fail=True)),
            (E, dict(kind='ensemble', members=3, requests=1, fail_fast=True, member_fail=True)),
            (E, dict(kind='ensemble', members=3, requests=1, fail_fast=False, member_fail=True)),
            # a batching stage downstream of a failing stage: the upstream failure reaches the batch collector
            dict(stages=[1, 1], init_fail=False, work_fail=True, callers=1, batch_size=2, batch_stage=1, capacity=2),
            dict(stages=[1, 1], init_fail=False, work_fail=True, pre_fail=True, callers=2),
            dict(stages=[2, 1], init_fail=False, work_fail=True, callers=2),
            dict(stages=[1], init_fail=False, work_fail=True, pre_fail=True, callers=3, capacity=3),
        ]
    return cs


def run(tier):
    t0 = time.time()
    known = load_known(PID)
    jobs = [(run_b_job, ({'property': PID, 'scenario': c[0] if isinstance(c, tuple) else S,
                          'params': c[1] if isinstance(c, tuple) else c, 'known': known},
                         1800 if tier == 'thorough' else 1500)) for c in configs(tier)]
    # the batch collector's loop as a unit (CrossHair): which element kinds reach a batch, which are short-circuited
    jobs.append((run_condition, ({'module': 'harness.C09_batch', 'func': 'check_build_input_batches',
                                  'timeout': 600 if tier == 'thorough' else 200, 'property': PID},)))
    results = run_jobs(jobs)
    for r in results:
        if 'module' in (r.get('spec') or {}):
            r['spec'] = {'params': r['spec']}
    return finish(
        PID, tier, 'model_checking', results, t0,
        explanation='Real Worker._start_single/stream/call (per-element try/except, preprocess short-circuit, RemoteException '
                    'wrapping), SequentialServlet wiring (a stage short-circuits exception values to its output), gather unwrapping '
                    '(`y.exc`, set_exception) and Server.call, with concurrent caller threads. Which request fails, at which site '
                    '(preprocess, call of stage s) is a symbolic input per request; every caller checks that it received exactly '
                    'its own outcome: the original exception type and args with a traceback that names the failing function, or '
                    'the composed result — so a failure of one request never changes the outcome of another. Ensemble/switch '
                    '(models/ensemble_scn.py): the real EnsembleServlet.start/_enqueue/_dequeue/stop and SwitchServlet._enqueue '
                    'threads run between member servlets that follow the servlet contract; which member fails for which request, '
                    'which member the switch selects and whether a request arrives already failed are symbolic; the driver checks '
                    'exactly one outcome per request and the documented rule: fail_fast -> EnsembleError as soon as a member '
                    'failed (entries collected so far intact), otherwise the list in member order with the failures in place, '
                    'EnsembleError when all failed; upstream failures are short-circuited unchanged; the catalog is empty at the '
                    'end; stop() ends all threads. Unit (CrossHair, harness/C09_batch.py:check_build_input_batches): the real '
                    'Worker._build_input_batches loop over a symbolic sequence of element kinds (input / exception object / '
                    'RemoteException / rejected by preprocess): only genuine accepted inputs reach a batch, every failed element is '
                    'short-circuited to the output once with its own error, preprocess never sees a failure.',
        assumptions=['thread-backed servlets: the exception object travels by reference (the process hop = pickling is C15\'s subject)',
                     'stub contracts of the primitives; servlet trees: plain and sequential; ensemble and switch over contract members',
                     'the ensemble catalog (one mutable dict object shared by two threads) is modelled as a tracked dict plus one '
                     'cell per partial result and counter (models/ensemble_scn.py: Catalog)'],
        outside=['ensembles of more than 3 members / 2 requests; nested ensembles; ensemble members that are real workers '
                 '(assume-guarantee: the member contract is what the ThreadServlet configurations establish)',
                 'batched failures are C09\'s configurations ("exactly the members of that batch fail" is checked there)',
                 'process boundary: traceback as text after pickling (see C15)'])
