"""C07 — an abandoned request never harms the server (Engine B)."""
from . import _server

PID = 'C07'


def configs(tier):
    cs = [
        dict(callers=['fin', 'inf'], capacity=2, backpressure=False),
        dict(callers=['fin', 'inf'], capacity=1, backpressure=False),
        dict(callers=[], capacity=2, backpressure=False, stream=[2, 1]),
        # the engine behind Server.stream with the smallest capacity: the consumer takes one output and walks away with
        # elements still to come (the feeder holds one and has its end marker to deliver when nobody reads the hand-off
        # queue any more); the same configuration through the whole Server is in the thorough tier (> 25 min)
        ('models.fifo_scn:FifoScn', dict(N=4, concurrency=1, capacity=1, lazy_take=1, fn_fail=False)),
    ]
    if tier == 'thorough':
        cs += [
            dict(callers=['fin', 'fin', 'inf'], capacity=2, backpressure=False),
            dict(callers=['fin', 'inf', 'inf'], capacity=3, backpressure=False),
            dict(callers=[], capacity=2, backpressure=False, stream=[3, 1]),
            dict(callers=[], capacity=1, backpressure=False, stream=[3, 2]),
            dict(callers=[], capacity=1, backpressure=False, stream=[3, 1]),
            dict(callers=['fin', 'inf'], capacity=2, backpressure=False, work_fail=True),
        ]
    return cs


def run(tier):
    return _server.run(PID, tier, configs(tier),
                       'A `fin` caller may time out at ANY step relative to the gather thread (then cancels its future); a '
                       'stream driver closes early (pending futures cancelled in fifo_stream\'s finally). Violation: the '
                       'gather thread ends with an exception (re-raised by Server.__exit__ -> FAIL), an `inf` caller does '
                       'not get its own result (FAIL) or blocks forever (deadlock/trap), or __exit__ does not return.')
