"""C19 — EagerBatcher partitions its input and waits no longer than told (Engine A)."""
from . import _a

PID = 'C19'


def run(tier):
    return _a.run(
        PID, tier, ['harness.C19_eager'],
        explanation='CrossHair executes the real EagerBatcher.__iter__ symbolically on a stub queue whose items become available '
                    'at symbolic virtual instants (arrival gaps), with the module clock patched to the same virtual clock. '
                    'batch_size, batch_wait_time and the gaps are symbolic; the yielded batches AND the virtual time of every '
                    'yield are compared with a 25-line reference of the documented rule (close when full, when the end marker '
                    'arrives, or when nothing arrived within the wait of the first item; then emit at once).',
        assumptions=['zero compute time between clock reads (time advances only while waiting on the queue)',
                     'integer virtual time; gaps and wait in the small ranges of the `pre:` lines',
                     'queue.get(timeout) contract: returns the next item iff it arrives within the timeout, else raises Empty '
                     'after exactly the timeout'],
        outside=['more than 3 items, batch_size > 3, clock jitter between the two perf_counter reads'],
        functions=['mpservice/streamer/_streamer.py:EagerBatcher.__iter__', 'mpservice/streamer/_streamer.py:EagerBatcher.__init__'])
