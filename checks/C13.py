"""C13 — hosted objects live exactly as long as some proxy refers to them (Engine A over an in-process transport)."""
import os
import sys

from . import _a
from .common import VERIF

PID = 'C13'


def run(tier):
    from harness import C13_gen
    scratch = os.path.join(VERIF, '.scratch')
    name = 'c13_gen_' + tier
    names = C13_gen.generate(os.path.join(scratch, name + '.py'), 3 if tier == 'thorough' else 2)
    if scratch not in sys.path:
        sys.path.insert(0, scratch)
    return _a.run(
        PID, tier, [name],
        explanation=f'{len(names)} generated conditions, one per operation skeleton (length '
                    f'{3 if tier == "thorough" else 2}, after an initial create) over {{create list, pickle a proxy (in transit), '
                    'unpickle it once into another process slot, store a proxy in a hosted dict, remove it from the dict, get it '
                    'back from the dict, drop a proxy}}; the operands (which of 3 proxy slots, which of 2 transit slots, which key) '
                    'are symbolic and concretised by branching. The REAL Server.create/incref/decref/_callmethod/_make_proxy, '
                    'BaseProxy.__init__/_incref/_decref/__reduce__, RebuildProxy and the generated proxy types run in one process '
                    'over a transport that serves every request synchronously from the real Server object with real pickle round '
                    'trips and flips the "in the server process" flag around the server-side half. After EVERY step the server\'s '
                    'reference counts must equal a reference model (client proxies + in-server references + pickles in transit), '
                    'nothing else may be hosted, every live proxy must answer; at the end everything is dropped and every hosted '
                    'list must be gone.',
        assumptions=['one process: "another process" is another proxy slot; the process boundary is the pickle round trip plus the '
                     'in-server flag', 'finalizers run at the explicit drop (refcount-based; gc.collect() after every step)',
                     'the solver selects among finitely many operand choices; payload objects are concrete'],
        outside=['a real child process EXITING with live proxies (finalizer order at interpreter exit)',
                 'MemoryBlock / shared memory release (/dev/shm) — not covered in this round', 'concurrent histories',
                 'histories longer than the skeleton length'],
        timeout_quick=300, timeout_thorough=900,
        functions=['mpservice/multiprocessing/server_process.py:' + f for f in (
            'Server.create', 'Server.incref', 'Server.decref', 'Server._callmethod', 'Server._make_proxy', 'BaseProxy.__init__',
            'BaseProxy._incref', 'BaseProxy._decref', 'BaseProxy.__reduce__', 'BaseProxy._callmethod', 'RebuildProxy',
            'AutoProxy', 'get_server')])
