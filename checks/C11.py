"""C11 — server starts all-or-nothing and stops completely (Engine B over the real servlets and workers)."""
import time

from .common import finish, load_known, run_b_job, run_jobs

PID = 'C11'
S = 'models.servlet_scn:ServletScn'
E = 'models.ensemble_scn:EnsembleScn'


def configs(tier):
    cs = [
        dict(stages=[2], init_fail=True, callers=1),
        dict(stages=[1, 2], init_fail=True, callers=1),
        dict(stages=[2], init_fail=False, work_fail=True, callers=1, cycles=2),
        # ensemble / switch trees: which member fails to start is symbolic (two start attempts in a row on the same object);
        # the real start/stop code of EnsembleServlet / SwitchServlet with their feeder/collector threads
        (E, dict(kind='ensemble', members=2, requests=1, fail_fast=True, member_fail=False, start_fail=True, cycles=2)),
        (E, dict(kind='switch', members=2, requests=1, member_fail=False, start_fail=True, cycles=2)),
    ]
    if tier == 'thorough':
        cs += [
            dict(stages=[3], init_fail=True, callers=1),
            dict(stages=[2, 1], init_fail=True, callers=1),
            dict(stages=[1, 1, 1], init_fail=True, callers=1),
            dict(stages=[2], init_fail=True, callers=2, work_fail=True),
            (E, dict(kind='ensemble', members=3, requests=1, fail_fast=False, member_fail=True, start_fail=True, cycles=2)),
            (E, dict(kind='switch', members=3, requests=2, member_fail=True, start_fail=True, cycles=2)),
        ]
    return cs


def run(tier):
    t0 = time.time()
    known = load_known(PID)
    jobs = [(run_b_job, ({'property': PID, 'scenario': c[0] if isinstance(c, tuple) else S,
                          'params': c[1] if isinstance(c, tuple) else c, 'known': known},
                         1800 if tier == 'thorough' else 1200)) for c in configs(tier)]
    results = run_jobs(jobs)
    return finish(
        PID, tier, 'model_checking', results, t0,
        explanation='Real Server.__enter__/_enter_server/__exit__, ThreadServlet.start/stop, SequentialServlet.start/stop, '
                    'Worker.run/__init__/start/_start_single (sentinel re-broadcast), gather and notify threads, on thread '
                    'queues. Which worker (stage, index) fails in __init__ is a symbolic input. __enter__ must raise exactly the '
                    'first failing worker\'s error (or succeed when none fails); a thread left blocked after the driver returned '
                    'is a deadlock/trap state, so "no worker left running" and "exit returns with all threads gone" are the '
                    'safety and progress queries; a second enter/call/exit cycle on the same object must work.',
        assumptions=['thread-backed servlets and queues only: `_SimpleThreadQueue` is SimpleQueue + RLock by contract',
                     'stub contracts of Lock, deque, SimpleQueue, Future, Thread, dict'],
        outside=['ProcessServlet / pipe-backed queues: real process spawn and teardown, and the exit hang when the sentinel '
                 'overtakes inputs still in the unbounded onboarding buffer (needs a pipe-capacity model)',
                 'ensemble / switch members that are real worker servlets (here they follow the servlet contract: a member either '
                 'starts its threads or raises and leaves nothing running — which the ThreadServlet configurations establish)',
                 'CPU affinity'])
