"""C12 — Process and Thread objects report how their target really ended (Engine A)."""
from . import _a

PID = 'C12'


def run(tier):
    return _a.run(
        PID, tier, ['harness.C12_outcome'],
        explanation='Real SpawnProcess.run (child side) is executed on a stub pipe that records the pickled messages; the parent side '
                    '(real _collect_result, join, result, exception, done, multiprocessing.wait/as_completed) then reads them back '
                    'from a stub reader whose EOF position (kill before / between the two sends) and the exit code / signal are '
                    'chosen by the solver, as are the outcome (value catalogue, exception catalogue incl. custom __init__, '
                    'SystemExit(None/0/3/"msg")) and which accessor is used first. Oracle: the future is resolved in every case '
                    '(wait/as_completed complete), all accessors agree, values/exception type+args/child traceback text are right, '
                    'an unexpected signal surfaces as OSError(signal). Same for Thread.run/join/result/exception.',
        assumptions=['the OS facts are stubs: pipe EOF position stands for the kill phase, `exitcode` is a given value, the OS-level '
                     'join returns at once; the solver selects among finitely many control choices, payload objects are concrete',
                     'signals sampled: HUP, INT, QUIT, KILL, SEGV, TERM, SYS'],
        outside=['real signal delivery timing inside the child, zombie/exitcode polling duration',
                 'a kill between pickling and writing a message (partial message)'],
        timeout_quick=400, timeout_thorough=900,
        functions=['mpservice/multiprocessing/context.py:SpawnProcess.run', 'mpservice/multiprocessing/context.py:SpawnProcess._collect_result',
                   'mpservice/multiprocessing/context.py:SpawnProcess.join', 'mpservice/multiprocessing/context.py:SpawnProcess.result',
                   'mpservice/multiprocessing/context.py:SpawnProcess.exception', 'mpservice/multiprocessing/context.py:SpawnProcess.done',
                   'mpservice/multiprocessing/__init__.py:wait', 'mpservice/multiprocessing/__init__.py:as_completed',
                   'mpservice/threading/__init__.py:Thread.run', 'mpservice/threading/__init__.py:Thread.join',
                   'mpservice/threading/__init__.py:Thread.result', 'mpservice/threading/__init__.py:Thread.exception',
                   'mpservice/threading/__init__.py:wait', 'mpservice/threading/__init__.py:as_completed'])
