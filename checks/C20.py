"""C20 — child-process log records all reach the parent, once and in order (Engine B; processes = threads of the model,
multiprocessing.Queue / Pipe by their documented contracts; counterexamples confirmed on REAL processes)."""
import time

from .common import finish, load_known, run_b_job, run_jobs

PID = 'C20'
Q = 'models.proclog_scn:ProcLogScn'


def configs(tier):
    cs = [
        # how the target ends is symbolic (returns / raises / sys.exit(3)); so is the number of records (0..records)
        dict(records=1, pipe=1, endings=3, sym_count=True, handler_logs=True),
        dict(records=2, pipe=1, endings=1, sym_count=False),                    # more records than the pipe holds
        dict(records=2, pipe=2, endings=1, sym_count=False, sym_levels=True),   # level filter: below / at / above
        dict(records=1, pipe=1, endings=3, sym_count=False, use='result'),
    ]
    if tier == 'thorough':
        cs += [
            dict(records=2, pipe=1, endings=3, sym_count=True, handler_logs=True),
            dict(records=3, pipe=1, endings=1, sym_count=False),
            dict(records=3, pipe=2, endings=2, sym_count=True),
            dict(records=2, pipe=1, endings=3, sym_count=False, sym_levels=True, use='result'),
        ]
    return cs


def run(tier):
    t0 = time.time()
    known = load_known(PID)
    jobs = [(run_b_job, ({'property': PID, 'scenario': Q, 'params': p, 'known': known},
                         1800 if tier == 'thorough' else 1500)) for p in configs(tier)]
    results = run_jobs(jobs)
    return finish(
        PID, tier, 'model_checking', results, t0,
        explanation='Real SpawnProcess.__init__/start/run/_run_logger/_collect_result/_finalize/join/result/_bootstrap. The child '
                    'process is a thread of the model running the real run() on its own copy of the process object, with its own '
                    'view of the log queue (own buffer, own feeder thread, shared bounded pipe); the parent has its logger thread, '
                    'collector thread and feeder. Symbolic: how many records the child emits and at which levels (below/at/above '
                    'the parent level), how the target ends (returns / raises / sys.exit(3)), a record logged from '
                    'handle_exception, and every interleaving of the 6 threads. Checked at the end (after join()/result(), the '
                    'finalizer and the parent\'s exit flush): the parent handled exactly the records at or above its level, once, '
                    'in emission order; join/result/exitcode agree with the ending; no thread is left blocked (a child that cannot '
                    'flush cannot exit: deadlock query); progress (no trap). A solver counterexample is replayed on real '
                    'primitives in threads AND on real processes (models/proclog_real.py: a real spawned child, real logging, the '
                    'child\'s feeder held up by a record that is slow to pickle, records of 70 kB for hangs); only the latter '
                    'decides.',
        assumptions=['multiprocessing.Queue contract (engine_b/mpstubs.py): put() buffers locally and returns; one feeder thread '
                     'per process moves items in order into the shared pipe and blocks while it is full; feeders of different '
                     'processes are not ordered against each other; close() lets the feeder end after flushing; a process that '
                     'has put items joins its feeder when it exits',
                     'pipe capacity is counted in child records (1 or 2 in the configurations); the parent\'s end markers always '
                     'fit (4 bytes against a 64 KiB pipe buffer)',
                     'Pipe(duplex=False): FIFO of pickles (a real pickle round trip is performed), EOF when the child closes',
                     'the child is spawned fresh: its root logger has no handlers before run() installs the QueueHandler',
                     'logging.handlers.QueueHandler.emit = put_nowait of the record; records are reduced to (name, levelno, index)',
                     'the process object is dropped (finalizer) after join/result returned'],
        outside=['signals / terminate() (C12 covers how the outcome is reported)', 'ProcessServlet workers and process pools '
                 '(they use this same Process class; their own code is not in this model)',
                 'more than 3 records, pipe capacities above 2, several children',
                 'a child whose logging was configured before run() (the code then forwards nothing by design)'])
