"""Contracts of the multiprocessing pieces that mpservice's Process class is built on, composed from the
stub primitives of stubs.py (so they work in exploration, in the solver model and in replay alike).

A child PROCESS is a thread of the model that runs the real `run()` on its own copy of the process
object (what pickling to the child gives), with its own view of every multiprocessing queue.

multiprocessing.Queue (documented behaviour, "Pipes and Queues" + "Joining processes that use queues"):
  * put() appends to a buffer local to the calling process and returns at once;
  * one feeder thread per process moves the buffered items, in order, into the shared pipe; it blocks
    while the pipe is full.  Nothing orders the feeders of two processes against each other;
  * get() takes the oldest item from the pipe;
  * close(): no more puts from this process; the feeder ends once it has flushed the buffer;
  * a process that has put items joins its feeder when it exits (it flushes before it terminates).
The pipe's capacity is counted in child records (`caps['mp_pipe']`); the few end markers a parent writes
always fit (a pickled None is 4 bytes against a 64 KiB pipe buffer).
"""
from __future__ import annotations

import copy
import pickle
import types

from .stubs import SCell, SEvent, SQueue, SThread, _rt

_CLOSE = ('$close-feeder',)
_EOF = ('$eof',)


def _is_marker(x, m):
    return isinstance(x, tuple) and x == m


class SMPQueue:
    """One process's view of a multiprocessing.Queue."""

    def __init__(self, maxsize=0, *, _shared=None, _bounded=False, ctx=None):
        if _shared is None:
            cap = _rt().cap_for('mp_pipe')
            _shared = (SQueue(0), SQueue(cap))  # (pipe, slots taken by child records)
        self._pipe, self._slots = _shared
        self._bounded = _bounded  # this view's records count against the pipe capacity
        self._buf = SQueue(0)
        # a cell, not a plain attribute: views travel inside interned values (a handler kept in a cell), whose
        # representative object may stem from an earlier re-execution
        self._closed = SCell(False)
        self._feeder = SThread(target=self._feed, name='feeder')
        self._feeder.start()

    def child_view(self):
        return SMPQueue(_shared=(self._pipe, self._slots), _bounded=True)

    # the feeder thread of this process
    def _feed(self):
        while True:
            x = self._buf.get()
            if _is_marker(x, _CLOSE):
                return
            if self._bounded:
                self._slots.put(1)  # blocks while the pipe is full
            self._pipe.put((self._bounded, x))

    def put(self, x, block=True, timeout=None):
        if self._closed.get():
            raise ValueError('Queue is closed')
        self._buf.put(x)

    def put_nowait(self, x):
        return self.put(x, False)

    def get(self, block=True, timeout=None):
        counted, x = self._pipe.get(block, timeout)
        if counted:
            self._slots.get()
        return x

    def close(self):
        if not self._closed.get():
            self._closed.set(True)
            self._buf.put(_CLOSE)

    def join_thread(self):
        assert self._closed.get(), 'join_thread() can only be used after close()'
        self._feeder.join()

    def cancel_join_thread(self):
        raise NotImplementedError('cancel_join_thread is not part of the modelled contract')

    def _at_process_exit(self):
        """util._exit_function -> Queue._finalize_join: flush, then the feeder ends."""
        self.close()
        self._feeder.join()


class _PipeEnd:
    def __init__(self, q, writer):
        self._q, self._writer, self._closed = q, writer, False

    def send(self, obj):
        if self._closed or not self._writer:
            raise OSError('handle is closed' if self._closed else 'connection is read-only')
        self._q.put(('v', pickle.loads(pickle.dumps(obj))))  # a Connection carries pickles, not references

    def recv(self):
        if self._closed or self._writer:
            raise OSError('handle is closed' if self._closed else 'connection is write-only')
        x = self._q.get()
        if _is_marker(x, _EOF):
            self._q.put(_EOF)
            raise EOFError
        return x[1]

    def close(self):
        if not self._closed:
            self._closed = True
            if self._writer:
                self._q.put(_EOF)  # the only write handle is the child's (the parent drops its copy in start())

    def child_view(self):
        return self


def Pipe(duplex=False):
    assert not duplex
    q = SQueue(0)
    return _PipeEnd(q, False), _PipeEnd(q, True)


class Finalize:
    """multiprocessing.util.Finalize: runs the callback at most once (when called, or when the object goes away —
    the scenario calls it where the process object is dropped)."""

    def __init__(self, obj, callback, args=(), kwargs=None, exitpriority=None):
        self._cb, self._args, self._kwargs = callback, args, kwargs or {}
        self._done = SCell(False)

    def __call__(self):
        if not self._done.get():
            self._done.set(True)
            return self._cb(*self._args, **self._kwargs)

    def still_active(self):
        return not self._done.get()


class SProcBase:
    """multiprocessing.process.BaseProcess: start() runs `_bootstrap()` of a copy of this object in the child."""

    _count = 0

    def __init__(self, group=None, target=None, name=None, args=(), kwargs=None, *, daemon=None):
        self._target, self._args, self._kwargs = target, tuple(args), dict(kwargs or {})
        self.name = name or 'SpawnProcess-1'
        self.daemon = bool(daemon)
        self._exitcode = SCell(None)
        self._exited = SEvent()
        self._child_thread = None

    def start(self):
        assert self._child_thread is None, 'cannot start a process twice'
        child = copy.copy(self)  # the child works on a pickled copy of the process object
        child._kwargs = {k: (v.child_view() if hasattr(v, 'child_view') else v) for k, v in self._kwargs.items()}
        child._views = [v for v in child._kwargs.values() if isinstance(v, SMPQueue)]
        self._child_thread = SThread(target=SProcBase._child_main, args=(self, child), name='child')
        self._child_thread.start()
        del self._target, self._args, self._kwargs  # as BaseProcess.start does

    def _child_main(self, child):
        _rt().current_ctx().extra['proc'] = 'child'
        code = child._bootstrap()
        self._exitcode.set(code)
        self._exited.set()

    def _bootstrap(self, parent_sentinel=None):
        code = 1
        try:
            try:
                self.run()
                code = 0
            except SystemExit as e:
                code = e.code if isinstance(e.code, int) else (0 if e.code is None else 1)
        finally:
            for v in self._views:
                v._at_process_exit()  # util._exit_function()
            for v in self._kwargs.values():
                if isinstance(v, _PipeEnd):
                    v.close()  # the OS closes what the process left open
        return code

    def run(self):
        if self._target:
            self._target(*self._args, **self._kwargs)

    def join(self, timeout=None):
        self._exited.wait(timeout)

    def is_alive(self):
        return self._child_thread is not None and not self._exited.is_set()

    @property
    def exitcode(self):
        return self._exitcode.get()

    @property
    def sentinel(self):
        return self._exited

    def terminate(self):
        raise NotImplementedError('signals are outside the modelled contract')

    kill = terminate


def conn_wait(objs, timeout=None):
    """multiprocessing.connection.wait for process sentinels."""
    ready = []
    for o in objs:
        if isinstance(o, SEvent):
            if o.wait(timeout):
                ready.append(o)
        else:
            raise NotImplementedError('connection.wait on ' + type(o).__name__)
    return ready


def _current_process():
    ctx = _rt().current_ctx()
    return types.SimpleNamespace(name='SpawnProcess-1' if ctx.extra.get('proc') == 'child' else 'MainProcess')


fake_multiprocessing = types.SimpleNamespace(
    connection=types.SimpleNamespace(Pipe=Pipe, wait=conn_wait),
    util=types.SimpleNamespace(Finalize=Finalize),
    current_process=_current_process,
)
FAKE_CTX = types.SimpleNamespace(Queue=SMPQueue)


# ---------------------------------------------------------------------------------------------
# logging: one root logger per process
# ---------------------------------------------------------------------------------------------
class Rec:
    """A log record, reduced to what the forwarding code looks at."""
    __slots__ = ('name', 'levelno', 'i')

    def __init__(self, name, levelno, i):
        self.name, self.levelno, self.i = name, levelno, i

    def __repr__(self):
        return f'Rec({self.i}, level={self.levelno})'


class QueueHandler:
    """logging.handlers.QueueHandler: emit = put_nowait on the queue."""

    def __init__(self, queue):
        self.queue = queue
        self._vname = 'child.qh'

    def __eq__(self, o):   # identity by name: a cell hands back the representative of an interned value
        return getattr(o, '_vname', None) == self._vname

    def __hash__(self):
        return hash(self._vname)

    def emit(self, record):
        self.queue.put_nowait(record)


class _ChildRoot:
    """Root logger of the (freshly spawned) child: no handlers until the code under test adds one."""

    def __init__(self):
        self._h = SCell(None, name='child.root.handler')

    def hasHandlers(self):
        return self._h.get() is not None

    def setLevel(self, lvl):
        pass

    def addHandler(self, h):
        self._h.set(h)

    def removeHandler(self, h):
        if self._h.get() == h:
            self._h.set(None)

    def log(self, level, i, name='w'):
        h = self._h.get()
        if h is not None:
            h.emit(Rec(name, level, i))


class _ParentLogger:
    def __init__(self, level, handled):
        self._level, self._handled = level, handled

    def getEffectiveLevel(self):
        return self._level

    def handle(self, record):
        self._handled.append(record.i)


class FakeLogging:
    """What mpservice.multiprocessing.context sees as `logging`."""
    DEBUG, INFO, WARNING = 10, 20, 30

    def __init__(self, parent_level, handled):
        self.child_root = _ChildRoot()
        self.parent = _ParentLogger(parent_level, handled)
        self.handlers = types.SimpleNamespace(QueueHandler=QueueHandler)

    def getLogger(self, name=None):
        if _rt().current_ctx().extra.get('proc') == 'child':
            return self.child_root
        return self.parent

    def captureWarnings(self, flag):
        pass
