"""Inductive-invariant checking over the product of the per-thread automata.

The bounded unrolling of bmc.py answers "no violation within K steps" and its cost explodes with K
(measured: K=25 42 s, K=30 > 400 s on a 3-thread system).  This module asks the solver for the
*inductive step* instead (the pattern recommended for state machines): given a candidate invariant
R over the global symbolic state,

    consecution   R(s) ∧ T(s, a, s') ∧ ¬R(s')         must be unsat   (for every state of R, every thread,
                                                                       every action and every input)
    safety        R(s) ∧ bad(s)                         must be unsat   (deadlock, FAIL terminal, broken
                                                                       step invariant, model bound, FRONTIER)
    initiation    init(s) ∧ ¬R(s)                       must be unsat

T is the symbolic transition relation built from sem.py (z3 back end) over the fused actions of the
automata; it is the same relation the bounded unrolling uses.  The candidate R is *learned*: it is
the set of global states visited by a concrete exploration of the reduced product (sem.py, concrete
back end), encoded as a decision diagram over the state variables.  Nothing is trusted about that
exploration: if it missed a state, consecution is sat and returns the missing successor (the
exploration resumes from it); if a stub's two back ends disagreed, consecution is sat as well.
An unsat triple is a proof that no bad state is reachable in the configuration — for any number
of steps, any schedule and any input — not merely up to a step bound.
"""
from __future__ import annotations

import os
import time
from collections import defaultdict

import z3

from .explore import CSym, Disabled
from .rt import Unsupported
from .sem import KINDS, bv
from .bmc import Encoding, node_label

WILD = None
PAR = max(1, int(os.environ.get('VERIF_SOLVER_PAR', '8')))


def fork_map(fn, items):
    """Run fn(i) for every item in a forked child process (the z3 terms built so far are shared
    copy-on-write); returns the JSON-able results in order."""
    import json as _json
    procs = []
    for it in items:
        r, w = os.pipe()
        pid = os.fork()
        if pid == 0:
            os.close(r)
            try:
                res = fn(it)
            except BaseException as e:  # noqa
                res = {'result': 'unknown', 'solver_s': 0.0, 'error': f'{type(e).__name__}: {e}'}
            with os.fdopen(w, 'w') as f:
                f.write(_json.dumps(res))
            os._exit(0)
        os.close(w)
        procs.append((pid, r))
    out = []
    for pid, r in procs:
        with os.fdopen(r) as f:
            data = f.read()
        os.waitpid(pid, 0)
        out.append(_json.loads(data) if data else {'result': 'unknown', 'solver_s': 0.0, 'error': 'no answer'})
    return out


class Reduced:
    """Concrete exploration of the reduced product (stable nodes, fused actions)."""

    def __init__(self, prod, enc, cenv):
        self.p = prod
        self.enc = enc
        self.cenv = cenv
        self.rt = prod.rt
        self.threads = prod.threads
        self.out = {t: defaultdict(list) for t in self.threads}
        for t in self.threads:
            for e in prod.auts[t].edges:
                self.out[t][e.src].append(e)
        self.names = [n for n in enc.names if not n.startswith('$pc.')]
        self.inames = sorted(prod.rt.inputs)
        self.init_v = {n: enc.vars[n][1] for n in self.names}
        self.parent = {}
        self.states = {}
        self.succ = {}
        self.order = []

    def key(self, pcs, v):
        return (pcs, tuple(v.get(n, self.init_v[n]) for n in self.names),
                tuple(v.get('$in.' + n) for n in self.inames))

    def init_state(self):
        pcs = tuple(self.p.auts[t].init for t in self.threads)
        return pcs, {}

    def apply(self, t, e, v):
        """Apply the fused action of edge e (thread t) to concrete state v.
        Returns list of (new v, frontier_case or None) — a list because an input read branches."""
        tid = self.p.env.tid[t]
        cur = [(v, None)]
        for (desc, case, _loc) in e.prims:
            obj, kind, op, iargs = desc
            nxt = []
            for (vv, _) in cur:
                if kind == 'Unknown':
                    nxt.append((vv, 'unknown'))
                    continue
                if kind == 'Input':
                    key = '$in.' + str(iargs[0])
                    curv = vv.get(key)
                    if isinstance(case, tuple) and case and case[0] == '$else':
                        vals = [c for c in range(iargs[1]) if c not in case[1]]
                        if curv is None:
                            for c in vals:
                                d = dict(vv)
                                d[key] = c
                                nxt.append((d, ('input', c)))
                        elif curv in vals:
                            nxt.append((vv, ('input', curv)))
                        continue
                    if curv is None:
                        d = dict(vv)
                        d[key] = case
                        nxt.append((d, None))
                    elif curv == case:
                        nxt.append((vv, None))
                    continue
                cfg = self.rt.objs[obj][1]
                K = KINDS[kind]
                if isinstance(case, tuple) and case and case[0] == '$else':
                    S = CSym(vv, self.cenv)
                    if K.blocked(S, tid, obj, cfg, op, iargs):
                        continue
                    hit = False
                    for c2 in case[1]:
                        S2 = CSym(vv, self.cenv)
                        try:
                            K.sem(S2, tid, obj, cfg, op, iargs, c2)
                            hit = True
                            break
                        except Disabled:
                            pass
                    if not hit:
                        nxt.append((vv, 'else'))
                    continue
                S = CSym(vv, self.cenv)
                try:
                    K.sem(S, tid, obj, cfg, op, iargs, case)
                except Disabled:
                    continue
                nxt.append((S.result() if S.over else vv, None))
            cur = nxt
            if not cur:
                break
        return cur

    def explore(self, roots=None, max_states=2_000_000, max_s=600):
        t0 = time.time()
        if roots is None:
            pcs, v = self.init_state()
            roots = [(pcs, v, None, None)]
        stack = list(roots)
        frontier_hits = []
        while stack:
            if len(self.states) >= max_states or time.time() - t0 > max_s:
                return False, frontier_hits
            pcs, v, par, via = stack.pop()
            k = self.key(pcs, v)
            if k in self.states:
                continue
            self.states[k] = (pcs, v)
            self.parent[k] = (par, via)
            sc = self.succ[k] = []
            for ti, t in enumerate(self.threads):
                aut = self.p.auts[t]
                for e in self.out[t].get(pcs[ti], ()):
                    for (nv, fr) in self.apply(t, e, v):
                        npcs = pcs[:ti] + (e.dst,) + pcs[ti + 1:]
                        if e.dst == aut.frontier:
                            frontier_hits.append((k, t, e))
                            continue
                        sets = tuple(sorted((n, x) for n, x in nv.items()
                                            if n.startswith('$in.') and n not in v))
                        sc.append((t, e, self.key(npcs, nv), sets))
                        stack.append((npcs, nv, k, (t, e)))
        return True, frontier_hits

    # ---- progress analysis: can every state still reach a state in which everybody is done? ----
    def is_done(self, k):
        pcs, vals, ins = k
        vd = None
        for ti, t in enumerate(self.threads):
            aut = self.p.auts[t]
            if pcs[ti] in aut.terminal:
                continue
            if pcs[ti] == aut.init:
                if vd is None:
                    vd = dict(zip(self.names, vals))
                if vd.get(f'{t}.st', 1) == 0:
                    continue  # never started
            return False
        return True

    def progress(self, accept=None):
        """dist[k] = number of steps within which `everybody done` can be reached from k, whatever
        the inputs still to be read are; choice[k] = list of (input assignment, action edge) rows
        realising it.  States without dist are doomed (deadlock, or a trap that only spins)."""
        INF = float('inf')
        dist = {k: 0 for k in self.states if self.is_done(k) or (accept is not None and accept(k))}
        choice = {}
        pred = defaultdict(set)
        for k, sc in self.succ.items():
            for (t, e, k2, sets) in sc:
                pred[k2].add(k)
        work = list(dist)
        ninputs = {('$in.' + n): self.rt.inputs[n] for n in self.inames}
        while work:
            nxt = set()
            for k2 in work:
                nxt |= pred[k2]
            work = []
            for k in nxt:
                if k in dist and dist[k] == 0:
                    continue
                sc = self.succ[k]
                names = sorted(set(n for (_, _, _, sets) in sc for n, _ in sets))
                if len(names) > 8:
                    raise Unsupported('more than 8 inputs read in one step')
                # every valuation u of the inputs read by the outgoing steps needs a step consistent
                # with u that leads to a state of finite rank
                worst, rows = 0, []
                import itertools
                for u in itertools.product(*[range(ninputs[n]) for n in names]):
                    ud = dict(zip(names, u))
                    best, beste = INF, None
                    for (t, e, k2, sets) in sc:
                        if all(ud[n] == x for n, x in sets):
                            d2 = dist.get(k2, INF)
                            if d2 + 1 < best:
                                best, beste = d2 + 1, (t, e)
                    if beste is None:
                        worst = INF
                        break
                    worst = max(worst, best)
                    rows.append((tuple(sorted(ud.items())), beste))
                if worst < dist.get(k, INF):
                    dist[k] = worst
                    choice[k] = rows
                    work.append(k)
        return dist, choice

    def can_finish(self, accept=None):
        """States from which `everybody done` is reachable along SOME path (for some values of the inputs still to be
        read).  A doomed state outside this set is a trap whatever the remaining inputs are."""
        ok = set(k for k in self.states if self.is_done(k) or (accept is not None and accept(k)))
        pred = defaultdict(set)
        for k, sc in self.succ.items():
            for (t, e, k2, sets) in sc:
                pred[k2].add(k)
        work = list(ok)
        while work:
            k2 = work.pop()
            for k in pred[k2]:
                if k not in ok:
                    ok.add(k)
                    work.append(k)
        return ok

    def path_to(self, k):
        """Schedule (list of (thread, edge)) from the initial state to state key k."""
        steps = []
        while k is not None:
            par, via = self.parent[k]
            if via is not None:
                steps.append(via)
            k = par
        steps.reverse()
        return steps


class Trie:
    """Decision diagram of a set of tuples (None = wildcard), as a z3 formula with shared
    sub-diagrams (hash-consed bottom-up)."""

    def __init__(self, vars_):
        self.vars = vars_  # list of (z3 var, width) in tuple order
        self.ids = {}  # canonical key -> id
        self.form = []  # id -> formula
        self.TRUE = self._mk(('T',), z3.BoolVal(True))

    def _mk(self, key, f):
        i = self.ids.get(key)
        if i is None:
            i = len(self.form)
            self.ids[key] = i
            self.form.append(f if not callable(f) else f())
        return i

    def build(self, tuples):
        tuples = list(set(tuples))
        return self.form[self._node(0, tuples)]

    def _node(self, i, tuples):
        if i == len(self.vars):
            return self.TRUE
        groups = defaultdict(list)
        for t in tuples:
            groups[t[i]].append(t)
        kids = tuple(sorted(((-1 if v is None else v), self._node(i + 1, g)) for v, g in groups.items()))
        key = (i, kids)
        j = self.ids.get(key)
        if j is not None:
            return j
        var, w = self.vars[i]
        alts = []
        for v, cid in kids:
            sub = self.form[cid]
            if v == -1:
                alts.append(sub)
            elif cid == self.TRUE:
                alts.append(var == bv(v, w))
            else:
                alts.append(z3.And(var == bv(v, w), sub))
        f = z3.Or(alts) if len(alts) > 1 else alts[0]
        return self._mk(key, f)


class Inductive:
    def __init__(self, prod, scn, exclude=(), cenv=None):
        self.p = prod
        self.scn = scn
        self.enc = Encoding(prod, scn, por=False, halt=False, exclude=exclude)
        self.red = Reduced(prod, self.enc, cenv)
        enc = self.enc
        # order: pcs, state vars, inputs
        self.cols = []
        for t in prod.threads:
            n = f'$pc.{t}'
            self.cols.append((n, enc.vars[n][0]))
        for n in self.red.names:
            self.cols.append((n, enc.vars[n][0]))
        self.icols = [(n, enc.env.inputs[n]) for n in self.red.inames]

    def tuple_of(self, k):
        pcs, vals, ins = k
        return tuple(pcs) + tuple(vals) + tuple(ins)

    def R(self, which):
        enc = self.enc
        vs = [(which[n], w) for n, w in self.cols] + [(v, v.size()) for _, v in self.icols]
        tr = Trie(vs)
        return tr.build([self.tuple_of(k) for k in self.red.states])

    def solver(self, timeout_s):
        s = z3.Tactic('qfbv').solver()
        s.set('timeout', int(timeout_s * 1000))
        for nm, var in self.enc.env.inputs.items():
            k = self.p.rt.inputs[nm]
            if k < (1 << var.size()):
                s.add(z3.ULT(var, bv(k, var.size())))
        return s

    def check(self, timeout_s=900):
        """Returns dict(result=..., queries=[...]) with result in
        {'inductive-safe', 'bad', 'frontier', 'not-closed', 'unknown'}."""
        enc = self.enc
        out = {'queries': []}
        t0 = time.time()
        Rpre = self.R(enc.pre)
        Rpost = z3.substitute(Rpre, [(enc.pre[n], enc.post[n]) for n in enc.names])
        out['R_states'] = len(self.red.states)
        out['R_build_s'] = round(time.time() - t0, 2)

        def run(name, *cons):
            s = self.solver(timeout_s)
            for c in cons:
                s.add(c)
            t1 = time.time()
            r = str(s.check())
            out['queries'].append({'query': name, 'result': r, 'solver_s': round(time.time() - t1, 2)})
            return r, (s.model() if r == 'sat' else None)

        # initiation
        init = z3.And([enc.pre[n] == bv(enc.vars[n][1], enc.vars[n][0]) for n in enc.names])
        r, m = run('initiation', init, z3.Not(Rpre))
        if r != 'unsat':
            out['result'] = 'unknown' if r != 'sat' else 'not-closed'
            out['detail'] = 'initial state not in R'
            return out
        # safety (incl. frontier)
        bad = z3.Or(enc.deadlock, enc.fail, enc.inv_broken, enc.overflow)
        r, m = run('safety', Rpre, bad)
        if r == 'sat':
            out['result'] = 'bad'
            out['state'] = self.read_state(m, enc.pre)
            for nm, pred in (('fail', enc.fail), ('invariant', enc.inv_broken), ('deadlock', enc.deadlock),
                             ('overflow', enc.overflow)):
                if z3.is_true(m.eval(pred, model_completion=True)):
                    out['kind'] = nm
                    break
            return out
        if r != 'unsat':
            out['result'] = 'unknown'
            return out
        # consecution, split over the pre-state set and run in forked processes when R is large
        keys = list(self.red.states)
        nchunk = max(1, min(PAR, len(keys) // 1500))
        if nchunk == 1:
            r, m = run('consecution', Rpre, enc.trans, enc.sel != enc.IDLE, z3.Not(Rpost))
            if r == 'sat':
                return self._cons_cex(out, self.read_state(m, enc.pre), self.read_state(m, enc.post),
                                      m.eval(enc.sel, model_completion=True).as_long())
            out['result'] = 'inductive-safe' if r == 'unsat' else 'unknown'
            return out
        vs = [(enc.pre[n], w) for n, w in self.cols] + [(v, v.size()) for _, v in self.icols]
        chunks = [keys[i::nchunk] for i in range(nchunk)]

        def work(i):
            Ri = Trie(vs).build([self.tuple_of(k) for k in chunks[i]])
            s = self.solver(timeout_s)
            s.add(Ri, enc.trans, enc.sel != enc.IDLE, z3.Not(Rpost))
            t1 = time.time()
            r = str(s.check())
            res = {'result': r, 'solver_s': round(time.time() - t1, 2)}
            if r == 'sat':
                m = s.model()
                res['pre'] = self.read_state(m, enc.pre)
                res['post'] = self.read_state(m, enc.post)
                res['action'] = m.eval(enc.sel, model_completion=True).as_long()
            return res

        t1 = time.time()
        results = fork_map(work, range(nchunk))
        q = {'query': 'consecution', 'chunks': nchunk, 'solver_s': round(sum(r_['solver_s'] for r_ in results), 2),
             'wall_s': round(time.time() - t1, 2)}
        if any(r_['result'] == 'sat' for r_ in results):
            q['result'] = 'sat'
            out['queries'].append(q)
            r_ = next(r_ for r_ in results if r_['result'] == 'sat')
            fix = lambda d: {'pcs': tuple(d['pcs']), 'vals': tuple(d['vals']), 'ins': tuple(d['ins'])}  # noqa
            return self._cons_cex(out, fix(r_['pre']), fix(r_['post']), r_['action'])
        q['result'] = 'unsat' if all(r_['result'] == 'unsat' for r_ in results) else 'unknown'
        out['queries'].append(q)
        out['result'] = 'inductive-safe' if q['result'] == 'unsat' else 'unknown'
        return out

    def _cons_cex(self, out, pre, post, j):
        out['state'], out['post'], out['action'] = pre, post, j
        t, prims, edges = self.p.actions[j]
        fr = self.p.auts[t].frontier
        out['result'] = 'frontier' if post['pcs'][self.p.threads.index(t)] == fr else 'not-closed'
        return out

    def doomed(self, accept=None):
        """Explored states from which `everybody done` is unreachable (deadlocks and spin traps).
        `accept`: states that count as ends although not done (listed known findings)."""
        self.dist, self.choice = self.red.progress(accept)
        return [k for k in self.red.states if k not in self.dist]

    def progress_check(self, timeout_s=900):
        """Solver certificate of `from every invariant state completion stays reachable`: every state of R
        carries a rank d and a designated action; the query asks for a state whose designated action is
        disabled or does not lead to a smaller rank.  Must be unsat."""
        enc = self.enc
        dist, choice = self.dist, self.choice
        DW = max(1, int(max(dist.values())).bit_length())
        d, d2 = z3.BitVec('rank@pre', DW), z3.BitVec('rank@post', DW)
        iidx = {('$in.' + n): i for i, n in enumerate(self.red.inames)}
        rows_n, rows_d = [], []
        for k in self.red.states:
            base = self.tuple_of(k)
            rows_d.append(base + (dist[k],))
            if dist[k] == 0:
                continue
            npre = len(self.cols)
            for sets, (t, e) in choice[k]:
                row = list(base)
                for n, x in sets:
                    row[npre + iidx[n]] = x
                rows_n.append(tuple(row) + (dist[k], e.act))
        vs_pre = [(enc.pre[n], w) for n, w in self.cols] + [(v, v.size()) for _, v in self.icols]
        vs_post = [(enc.post[n], w) for n, w in self.cols] + [(v, v.size()) for _, v in self.icols]
        Rd = Trie(vs_post + [(d2, DW)]).build(rows_d)
        enabled = z3.Or([z3.And(enc.sel == j, enc.en[j]) for j in range(enc.A)])
        nchunk = max(1, min(PAR, len(rows_n) // 1500))
        chunks = [rows_n[i::nchunk] for i in range(nchunk)]

        def work(i):
            Rn = Trie(vs_pre + [(d, DW), (enc.sel, enc.SW)]).build(chunks[i])
            s = self.solver(timeout_s)
            s.add(Rn, z3.Or(z3.Not(enabled), z3.And(enc.trans, Rd, z3.UGE(d2, d))))
            t1 = time.time()
            r = str(s.check())
            return {'result': r, 'solver_s': round(time.time() - t1, 2)}

        t1 = time.time()
        results = [work(0)] if nchunk == 1 else fork_map(work, range(nchunk))
        r = 'unsat' if all(x['result'] == 'unsat' for x in results) else (
            'sat' if any(x['result'] == 'sat' for x in results) else 'unknown')
        return {'query': 'progress', 'result': r, 'chunks': nchunk,
                'solver_s': round(sum(x['solver_s'] for x in results), 2), 'wall_s': round(time.time() - t1, 2),
                'max_rank': int(max(dist.values()))}

    def witness(self, timeout_s=300):
        """A state of R in which every thread is done and the driver did not FAIL (vacuity guard)."""
        enc = self.enc
        s = self.solver(timeout_s)
        s.add(self.R(enc.pre), enc.alldone, z3.Not(enc.fail_all))
        t1 = time.time()
        r = str(s.check())
        q = {'query': 'witness', 'result': r, 'solver_s': round(time.time() - t1, 2)}
        return q, (self.read_state(s.model(), enc.pre) if r == 'sat' else None)

    def read_state(self, m, which):
        enc = self.enc
        pcs = tuple(m.eval(which[f'$pc.{t}'], model_completion=True).as_long() for t in self.p.threads)
        vals = tuple(m.eval(which[n], model_completion=True).as_long() for n in self.red.names)
        ins = tuple(m.eval(v, model_completion=True).as_long() for _, v in self.icols)
        return {'pcs': pcs, 'vals': vals, 'ins': ins}

    def find_key(self, st):
        """The explored state (key) matching a solver state (inputs may be wildcards in R)."""
        for k in self.red.states:
            pcs, vals, ins = k
            if pcs == st['pcs'] and vals == st['vals'] and all(a is None or a == b for a, b in zip(ins, st['ins'])):
                return k
        return None
