"""Replay of a solver schedule on the real code over REAL primitives.

The same stub classes are used, in 'replay' mode: each wraps the real stdlib object (threading.Lock,
collections.deque, queue.Queue, concurrent.futures.Future, threading.Thread …) and passes every
operation through a gate.  The controller lets exactly one operation through at a time, in the
order of the solver's schedule, checks that the operation the real code performs is the one the
model predicted (object, operation, arguments) and that the real primitive answered with the case
the model predicted.  After the schedule is exhausted all gates open (free run) and the outcome is
judged on the real run: the driver's verdict, a hang, or the invariant on real values.
"""
from __future__ import annotations

import threading as _th
import time

from . import rt as _rtmod
from .rt import ThreadCtx, Unsupported
from .sem import KINDS


class Diverged(Exception):
    pass


class ReplayController:
    def __init__(self, scn, steps, inputs, gate_timeout=8.0, verbose=False):
        self.scn = scn
        self.sched = []  # (thread, objname, op, argkeys, case)
        for (t, prims) in steps:
            for (desc, case) in prims:
                obj, kind, op, iargs = desc
                if kind in ('Input', 'Unknown'):
                    continue
                self.sched.append((t, obj, op, tuple(iargs), case))
        self.inputs = dict(inputs)
        self.idx = 0
        self.cv = _th.Condition()
        self.ctxs = {}  # ident -> ThreadCtx
        self.free = False
        self.diverged = None
        self.gate_timeout = gate_timeout
        self.verbose = verbose
        self.log = []
        self.threads = []
        self.remaining = {}
        for (t, *_r) in self.sched:
            self.remaining[t] = self.remaining.get(t, 0) + 1
        self.paused_at_end = _th.Event()

    # ---- thread contexts ----------------------------------------------------------------------
    def register(self, name):
        ctx = ThreadCtx(name, (), False)
        self.ctxs[_th.get_ident()] = ctx
        return ctx

    def current_ctx(self):
        return self.ctxs[_th.get_ident()]

    # ---- the gate -----------------------------------------------------------------------------
    def op(self, obj, op, args):
        rt = _rtmod.RT
        K = KINDS[obj._kind]
        if obj._kind == 'Input':
            return self.inputs.get(args[0], 0)
        ctx = self.current_ctx()
        me = ctx.name
        case = None
        scheduled = False
        with self.cv:
            t0 = time.time()
            while not self.free:
                if self.idx >= len(self.sched):
                    self.free = True
                    self.cv.notify_all()
                    break
                if self.remaining.get(me, 0) == 0:
                    # nothing more expected from this thread: wait for the schedule to finish
                    if not self.cv.wait(0.05) and time.time() - t0 > self.gate_timeout * 3:
                        self._diverge(f'{me}: schedule not finished after {self.gate_timeout * 3}s')
                    continue
                t, o, p, a, c = self.sched[self.idx]
                if t == me:
                    iargs = K.intern_args(rt, obj, op, args)
                    if (o, p, tuple(iargs)) != (obj._vname, op, a):
                        self._diverge(f'{me}: expected {o}.{p}{a}, real code does {obj._vname}.{op}{tuple(iargs)}')
                        break
                    case = c
                    scheduled = True
                    break
                if not self.cv.wait(0.05) and time.time() - t0 > self.gate_timeout:
                    self._diverge(f'{me}: waited {self.gate_timeout}s at {obj._vname}.{op} for {t}: {o}.{p}')
                    break
        # perform the real operation (holding the turn if scheduled)
        try:
            iargs = K.intern_args(rt, obj, op, args)
            K.note(rt, obj, op, iargs)
        except Exception:
            pass
        exc = None
        res = None
        try:
            res = obj._do_real(op, *self._real_args(obj, op, args), case=case)
        except BaseException as e:  # real primitive raised (Empty, Full, InvalidStateError, …)
            exc = e
        if scheduled:
            got = self._case_of(obj, op, res, exc)
            with self.cv:
                if got is not None and got != case and not self._same_case(got, case):
                    self._diverge(f'{me}: {obj._vname}.{op}: model case {case!r}, real primitive gave {got!r}')
                self.log.append((me, obj._vname, op, case))
                self.idx += 1
                self.remaining[me] -= 1
                if self.idx >= len(self.sched):
                    self.at_end()
                self.cv.notify_all()
        if exc is not None:
            raise exc
        return res

    def at_end(self):
        """Called (under cv) when the last scheduled operation has completed."""
        self.end_snapshot = self.scn.concrete_snapshot() if hasattr(self.scn, 'concrete_snapshot') else None
        self.free = True

    def _diverge(self, msg):
        if self.diverged is None:
            self.diverged = msg
        self.free = True
        self.cv.notify_all()

    def _real_args(self, obj, op, args):
        return args

    def _same_case(self, got, case):
        return False

    def _case_of(self, obj, op, res, exc):
        """Map the real primitive's answer back to a case label (None = do not compare)."""
        rt = _rtmod.RT
        k = obj._kind
        if exc is not None:
            n = type(exc).__name__
            if k == 'Seq':
                return {'Empty': 'Empty', 'Full': 'Full', 'IndexError': 'IndexError', 'ValueError': 'ValueError'}.get(n)
            if k == 'Future':
                if n == 'InvalidStateError':
                    return 'invalid'
                if n == 'CancelledError':
                    return 'cancelled'
                if n == 'TimeoutError':
                    # the wait expired — unless the future is done and this IS its stored exception
                    r = getattr(obj, '_real', None)
                    try:
                        stored = r.exception(0) if (r is not None and r.done() and not r.cancelled()) else None
                    except Exception:
                        stored = None
                    if stored is not exc:
                        return 'timeout'
                if op == 'result':
                    try:
                        return ('exc', rt.vals.intern(exc))
                    except Unsupported:
                        return None
            if k == 'Dict':
                return 'KeyError' if n == 'KeyError' else None
            if k == 'Lock' and n == 'RuntimeError':
                return 'err'
            if k == 'Pool':
                return 'shutdown'
            return None
        if k == 'Lock':
            if op == 'acquire':
                return 'ok' if res else 'fail'
            if op == 'release':
                return 'ok'
            return bool(res)
        if k == 'Event':
            return None if op in ('set', 'clear') else bool(res)
        if k == 'Seq':
            if op in ('popleft', 'pop', 'peek0', 'get'):
                try:
                    return ('v', rt.vals.intern(res))
                except Unsupported:
                    return None
            if op in ('len', 'qsize'):
                return int(res)
            if op in ('bool', 'empty', 'full', 'contains'):
                return bool(res)
            return 'ok'
        if k == 'Future':
            if op == 'result':
                try:
                    return ('ok', rt.vals.intern(res))
                except Unsupported:
                    return None
            if op == 'exception':
                return None
            if op in ('set_result', 'set_exception'):
                return 'ok'
            return bool(res)
        if k == 'Thread':
            if op in ('is_alive', 'started'):
                return bool(res)
            return None
        if k == 'Dict':
            if op in ('getitem', 'pop'):
                try:
                    return ('v', rt.vals.intern(res))
                except Unsupported:
                    return None
            if op == 'len':
                return int(res)
            if op == 'contains':
                return bool(res)
            return None
        if k == 'Cell' and op == 'get':
            try:
                return ('v', rt.vals.intern(res))
            except Unsupported:
                return None
        return None

    # ---- threads ------------------------------------------------------------------------------
    def thread_start(self, sth):
        """SThread.start() in replay mode."""
        self.op(sth, 'start', ())

    def spawn(self, sth):
        def boot():
            self.register(sth._vname)
            try:
                _rtmod.RT.op(sth, 'begin')
                sth.run()
            except BaseException as e:  # noqa
                self.uncaught.append((sth._vname, e))
            finally:
                try:
                    _rtmod.RT.op(sth, 'exit')
                except BaseException:
                    pass

        th = _th.Thread(target=boot, daemon=True, name=sth._vname)
        sth._real = th
        self.threads.append(th)
        th.start()

    uncaught = []

    def pool_start(self, pool):
        import queue as _q

        pool._realq = _q.SimpleQueue()
        pool._down = False
        for w in pool._workers:
            self.spawn(w)

    def pool_op(self, pool, op, a, case):
        if op == 'submit':
            if pool._down:
                raise RuntimeError('cannot schedule new futures after shutdown')
            pool._realq.put(a[0])
            return None
        if op == 'take':
            return pool._realq.get()
        if op == 'shutdown':
            pool._down = True
            for _ in pool._workers:
                pool._realq.put(None)
            return None
        raise Unsupported(op)


def replay(scn, steps, inputs, kind, hang_s=3.0, total_s=30.0, verbose=False):
    """Run scenario `scn` on real primitives under the schedule.  Returns a dict with
    reproduced (bool), observed (what the real run showed) and diverged (reason or None)."""
    from . import stubs

    rt = _rtmod.RT
    ctl = ReplayController(scn, steps, inputs, verbose=verbose)
    ctl.uncaught = []
    rt.replay = ctl
    rt.kinds = KINDS
    rt.mode = 'replay'
    rt.aborting = False
    rt.caps = dict(scn.caps)
    result = {}

    def main():
        ctl.register('main')
        try:
            result['verdict'] = scn.main()
            result['status'] = ('returned', result['verdict'])
        except BaseException as e:  # noqa
            result['status'] = ('raised', f'{type(e).__name__}: {e}')

    out = {'reproduced': False, 'observed': None, 'diverged': None}
    with stubs.patched(scn.modules, deque_in=scn.deque_in,
                       extra=(scn.extra_patches() if stubs._PATCH_DEPTH == 0 else ()),
                       tracked=getattr(scn, 'tracked', ())):
        th = _th.Thread(target=main, daemon=True, name='replay-main')
        t0 = time.time()
        th.start()
        # wait for the schedule to be consumed (or divergence)
        while time.time() - t0 < total_s:
            with ctl.cv:
                if ctl.free:
                    break
            time.sleep(0.01)
        t_sched = time.time()
        th.join(hang_s if kind == 'deadlock' else total_s)
        alive = th.is_alive()
        out['diverged'] = ctl.diverged
        out['ops_replayed'] = ctl.idx
        out['ops_scheduled'] = len(ctl.sched)
        if kind == 'deadlock':
            left = [t.name for t in ctl.threads if t.is_alive()]
            if alive:
                out['observed'] = f'hang: driver still blocked {hang_s}s after the schedule'
            elif left:
                # the driver is done but threads the code started are still there (blocked for good)
                time.sleep(max(0.0, hang_s - (time.time() - t_sched)))
                left = [t.name for t in ctl.threads if t.is_alive()]
                out['observed'] = (f'driver finished with {result.get("status")} but threads are still alive '
                                   f'{hang_s}s after the schedule: {left}') if left else \
                    f'no hang: driver finished with {result.get("status")}'
            else:
                out['observed'] = f'no hang: driver finished with {result.get("status")}'
            out['reproduced'] = (alive or bool(left)) and ctl.diverged is None
        elif kind == 'fail':
            st = result.get('status')
            out['observed'] = f'driver: {st}' if st else 'driver did not finish'
            bad_threads = [(n, f'{type(e).__name__}: {e}') for n, e in ctl.uncaught
                           if scn.is_fail(n, ('raised', f'{type(e).__name__}: {e}'))]
            if bad_threads:
                out['observed'] += f'; threads ended by an uncaught exception: {bad_threads!r}'
            out['reproduced'] = ((bool(st) and scn.is_fail('main', st)) or bool(bad_threads)) and ctl.diverged is None
        elif kind == 'invariant':
            snap = getattr(ctl, 'end_snapshot', None)
            ok = scn.concrete_invariant(snap) if snap is not None else True
            out['observed'] = f'values at the end of the schedule: {snap}'
            out['reproduced'] = (not ok) and ctl.diverged is None
        elif kind == 'witness':
            st = result.get('status')
            out['observed'] = f'driver: {st}'
            out['reproduced'] = bool(st) and not scn.is_fail('main', st) and ctl.diverged is None and not alive
        # open everything so that stuck daemon threads do not hold the gate
        with ctl.cv:
            ctl.free = True
            ctl.cv.notify_all()
    rt.mode = None
    rt.replay = None
    return out
