"""Runtime shared by the symbolic-primitive stubs (explore mode) and the gated real
primitives (replay mode).

Explore mode executes ONE thread of the real mpservice code at a time.  Every operation on a
concurrency primitive (lock, deque, queue, future, event, thread, tracked dict / cell, symbolic
input) is routed through `RT.op`.  The primitive does not hold state: its result is a *case* of the
symbolic result, taken from a script (a path prefix) or, beyond the script, enumerated by the
kind's `cases()` function.  The sequence of (operation, case) pairs is the thread's path; the path
condition of a case is the guard over the shared symbolic state defined in `sem.py`.
"""
from __future__ import annotations

import gc
import os
import sys
import threading as _real_threading

REPO_SRC = os.path.realpath(os.environ.get('MPSERVICE_SRC', '/repo/src'))


class Abort(BaseException):
    """Raised inside the code under test to cut a run at the exploration frontier."""


class Unsupported(Exception):
    pass


class ExploreLimit(Exception):
    pass


# --------------------------------------------------------------------------------------------
# value interning: every python value that crosses a primitive gets a stable key and an integer id
# --------------------------------------------------------------------------------------------
class Values:
    def __init__(self):
        self.key2id = {}
        self.rep = []  # id -> representative python object
        self.keys = []
        self.singletons = {}  # id(obj) -> name
        self.custom = []  # (type, keyfunc)
        self.intern(None)  # id 0 is None

    def register_singleton(self, obj, name):
        self.singletons[id(obj)] = (name, obj)

    def register_type(self, typ, keyfunc):
        self.custom.append((typ, keyfunc))

    def key(self, v):
        if v is None:
            return ('none',)
        s = self.singletons.get(id(v))
        if s is not None and s[1] is v:
            return ('sing', s[0])
        t = type(v)
        if t in (bool, int, str, float, bytes):
            return ('lit', t.__name__, v)
        nm = getattr(v, '_vname', None)
        if nm is not None and isinstance(nm, str):
            return ('obj', nm)
        for typ, kf in self.custom:
            if isinstance(v, typ):
                return ('cust', typ.__name__, kf(v, self))
        if t is tuple:
            return ('tup',) + tuple(self.key(x) for x in v)
        if t is list or (isinstance(v, list) and getattr(t, '_as_plain_value', False)):
            return ('list',) + tuple(self.key(x) for x in v)
        if t is dict or (isinstance(v, dict) and getattr(t, '_as_plain_value', False)):
            return ('dict',) + tuple(sorted((self.key(k), self.key(x)) for k, x in v.items()))
        if isinstance(v, BaseException):
            if t.__name__ in ('InvalidStateError', 'CancelledError', 'TimeoutError', 'Full', 'Empty', 'KeyError',
                              'IndexError', 'RuntimeError') and all(isinstance(a, str) for a in v.args):
                return ('exc', t.__module__, t.__qualname__, ())  # message text differs between stub and stdlib
            return ('exc', t.__module__, t.__qualname__, tuple(self.key(a) for a in v.args))
        if isinstance(v, type):
            return ('cls', v.__module__, v.__qualname__)
        if callable(v) and hasattr(v, '__qualname__'):
            slf = getattr(v, '__self__', None)
            clo = getattr(v, '__closure__', None)
            return (
                'fn',
                getattr(v, '__module__', None),
                v.__qualname__,
                self.key(slf) if slf is not None and not isinstance(slf, type(sys)) else None,
                len(clo) if clo else 0,
            )
        # plain data holder (e.g. a small wrapper class of the code under test): structural key
        slots = getattr(t, '__slots__', None)
        d = getattr(v, '__dict__', None)
        if (slots is not None or d is not None) and t.__module__ not in ('builtins',):
            names = list(slots or ()) if isinstance(slots, (tuple, list)) else ([slots] if isinstance(slots, str) else [])
            items = [(n, getattr(v, n)) for n in names if hasattr(v, n)]
            if d:
                items += sorted(d.items())
            if len(items) <= 6:
                return ('inst', t.__module__, t.__qualname__, tuple((n, self.key(x)) for n, x in items))
        raise Unsupported(f'cannot intern value of type {t.__module__}.{t.__qualname__}: {v!r}')

    def intern(self, v):
        k = self.key(v)
        i = self.key2id.get(k)
        if i is None:
            i = len(self.rep)
            self.key2id[k] = i
            self.rep.append(v)
            self.keys.append(k)
        return i

    def show(self, i):
        k = self.keys[i]
        return _show_key(k)


def _show_key(k):
    tag = k[0]
    if tag == 'none':
        return 'None'
    if tag == 'lit':
        return repr(k[2])
    if tag in ('sing', 'obj'):
        return k[1]
    if tag == 'tup':
        return '(' + ', '.join(_show_key(x) for x in k[1:]) + ')'
    if tag == 'list':
        return '[' + ', '.join(_show_key(x) for x in k[1:]) + ']'
    if tag == 'exc':
        return f'{k[2]}(' + ', '.join(_show_key(x) for x in k[3]) + ')'
    if tag == 'fn':
        return f'<fn {k[2]}>'
    if tag == 'cls':
        return f'<class {k[2]}>'
    return str(k)


# --------------------------------------------------------------------------------------------
class ThreadCtx:
    __slots__ = ('name', 'script', 'pos', 'trace', 'counters', 'explore', 'extra')

    def __init__(self, name, script, explore):
        self.name = name
        self.script = list(script)
        self.pos = 0
        self.trace = []  # list of OpRec
        self.counters = {}
        self.explore = explore
        self.extra = {}

    def alloc(self, kind):
        # a scenario may open a name space (`ctx.extra['ns']`, e.g. one per start/stop cycle) so that the objects of a
        # phase get the same names whatever was allocated before it on this path
        ns = self.extra.get('ns')
        key = kind if ns is None else f'{ns}.{kind}'
        k = self.counters.get(key, 0)
        self.counters[key] = k + 1
        return f'{self.name}.{key}{k}'


class OpRec:
    __slots__ = ('obj', 'kind', 'op', 'args', 'case', 'loc', 'cases', 'fp')

    def __init__(self, obj, kind, op, args, case, loc, cases, fp=None):
        self.obj, self.kind, self.op, self.args = obj, kind, op, args
        self.case, self.loc, self.cases = case, loc, cases
        self.fp = fp

    def desc(self):
        return (self.obj, self.kind, self.op, self.args)


def caller_loc(extra_files=()):
    """(file, line, qualname) of the innermost frame that belongs to mpservice or the scenario,
    plus the set of mpservice functions on the stack."""
    f = sys._getframe(2)
    loc = None
    funcs = []
    while f is not None:
        fn = f.f_code.co_filename
        if fn.startswith(REPO_SRC) or fn in extra_files:
            q = (os.path.relpath(fn, REPO_SRC) if fn.startswith(REPO_SRC) else os.path.basename(fn))
            if loc is None:
                loc = (q, f.f_lineno, f.f_code.co_qualname)
            funcs.append((q, f.f_code.co_qualname))
        f = f.f_back
    if loc is None:
        return ('?', 0, '?', ()), funcs
    return loc + (tuple(q for _, q in funcs),), funcs


class Runtime:
    """Global (per process) state of the current run."""

    def __init__(self):
        self.mode = None  # 'explore' | 'replay' | None
        self.vals = Values()
        self.aborting = True
        self.cur: ThreadCtx | None = None
        self.kinds = None  # sem.KINDS, set by explore
        self.objs = {}  # name -> (kind, cfg)   (accumulated over all runs)
        self.universe = {}  # (objname, slot) -> ordered list of value ids
        self.uni_dirty = False
        self.scn_files = ()
        self.funcs_seen = set()
        self.max_ops = 600
        self.chain = []  # pending spawn chain: list of (thread name, script prefix)
        self.target = None  # name of the thread being explored
        self.result = None
        self.replay = None  # replay controller
        self.inputs = {}  # symbolic input name -> number of values
        self.caps = {}
        self.explorer = None
        self.limit_hit = None
        self.use_fp = True
        self.error = None
        self.cenv = None

    def current_ctx(self):
        if self.mode == 'replay':
            return self.replay.current_ctx()
        return self.cur

    def cap_for(self, what):
        return self.caps.get(what, {'deque': 3, 'queue': 4, 'pool_jobs': 4, 'pool_workers': 2, 'mp_pipe': 1}.get(what))

    def on_thread_start(self, th):
        if self.explorer is not None:
            self.explorer.on_thread_start(th)

    # ---- object registry -------------------------------------------------------------
    def declare(self, name, kind, cfg):
        old = self.objs.get(name)
        if old is None:
            if isinstance(cfg.get('cap'), int) and cfg['cap'] > 15:
                raise Unsupported(f'{name}: cap {cfg["cap"]} does not fit the 4-bit length counters of the model (max 15)')
            self.objs[name] = (kind, dict(cfg))
            if self.cenv is not None:
                for v, (w, init) in self.kinds[kind].vars(name, cfg, self.cenv).items():
                    if init:
                        self.cenv.var_init[v] = init
        elif old[0] != kind or old[1] != dict(cfg):
            raise Unsupported(f'object {name} re-declared differently: {old} vs {(kind, cfg)}')

    def uni(self, obj, slot='v'):
        return self.universe.setdefault((obj, slot), [])

    def uni_add(self, obj, vid, slot='v'):
        u = self.universe.setdefault((obj, slot), [])
        if vid not in u:
            u.append(vid)
            self.uni_dirty = True

    # ---- the single entry point of all primitives ------------------------------------------
    def fatal(self, e):
        if self.error is None:
            self.error = e
        self.aborting = True
        raise Abort()

    def op(self, obj, op, *args):
        """`obj` is a stub with ._vname/._kind; args are python values (interned here)."""
        if self.mode == 'replay':
            return self.replay.op(obj, op, args)
        if self.aborting or self.mode != 'explore':
            raise Abort()
        try:
            ctx = self.cur
            K = self.kinds[obj._kind]
            iargs = K.intern_args(self, obj, op, args)
            K.note(self, obj, op, iargs)
            loc, funcs = caller_loc(self.scn_files)
            self.funcs_seen.update(funcs)
            fp = None
            if ctx.pos < len(ctx.script):
                case = ctx.script[ctx.pos]
            else:
                if not ctx.explore:
                    raise Unsupported(f'ancestor {ctx.name} ran past its prefix')
                fp = fingerprint(ctx)[0] if self.use_fp else None
                case = self.explorer.pick(ctx, obj, op, iargs, loc, fp)
                if case == 'ALIAS':
                    self.aborting = True
                    raise Abort()
                if case is None:
                    ctx.trace.append(OpRec(obj._vname, obj._kind, op, iargs, None, loc, None, fp))
                    self.aborting = True
                    raise Abort()
                ctx.script.append(case)
            ctx.pos += 1
            ctx.trace.append(OpRec(obj._vname, obj._kind, op, iargs, case, loc, None, fp))
            if len(ctx.trace) > self.max_ops:
                self.limit_hit = f'thread {ctx.name}: more than {self.max_ops} operations on one path'
                self.aborting = True
                raise Abort()
        except Unsupported as e:
            self.fatal(e)
        return K.realize(self, obj, op, iargs, case, args)


RT = Runtime()


def reset_runtime():
    global RT
    RT.__init__()
    return RT


# --------------------------------------------------------------------------------------------
# thread-local state fingerprint: lets the explorer recognise that two different histories of a
# thread have led to the same local state (same frames, same instruction, same local values), so
# that the thread's tree becomes a graph.  Merges are validated by differential re-execution.
# --------------------------------------------------------------------------------------------
import gc as _gc
import types as _types

_ENGINE_DIR = os.path.dirname(os.path.abspath(__file__))


class _KindProxy:
    def __instancecheck__(self, o):
        return type(o).__name__.endswith('Kind') and (type(o).__module__ or '').startswith('engine_b')


class _KindMeta(type):
    def __instancecheck__(cls, o):
        return type(o).__name__.endswith('Kind') and (type(o).__module__ or '').startswith('engine_b')


class Kind_(metaclass=_KindMeta):
    pass
_UNIQ = [0]


def _uniq(tag):
    _UNIQ[0] += 1
    return ('uniq', tag, _UNIQ[0])


_BY_NAME = (_types.FunctionType, _types.BuiltinFunctionType, _types.MethodDescriptorType,
            _types.WrapperDescriptorType, _types.ModuleType, _types.CodeType, type,
            _types.BuiltinMethodType, _types.MethodWrapperType, staticmethod, classmethod, property)


def _abs(o, seen, depth):
    if o is None:
        return o
    if o is True or o is False:
        return ('bool', str(o))   # not the bool itself: True == 1 and False == 0 would make two different states equal
    t = type(o)
    if t in (int, str, bytes):
        return o
    if t is float:
        return ('float', repr(o))   # 1.0 == 1
    nm = getattr(o, '_vname', None)
    if nm is not None and isinstance(nm, str):
        return ('p', nm)
    i = id(o)
    if i in seen:
        return ('ref', seen[i])
    if depth > 7:
        return _uniq('deep')
    if t in (tuple, list) or (isinstance(o, list) and getattr(t, '_as_plain_value', False)):
        seen[i] = len(seen)
        return (t.__name__,) + tuple(_abs(x, seen, depth + 1) for x in o)
    if t is dict or (isinstance(o, dict) and getattr(t, '_as_plain_value', False)):
        seen[i] = len(seen)
        try:
            return ('dict',) + tuple((_abs(k, seen, depth + 1), _abs(v, seen, depth + 1)) for k, v in o.items())
        except RuntimeError:
            return _uniq('dict')
    if t in (set, frozenset):
        try:
            return ('set',) + tuple(sorted(repr(_abs(x, seen, depth + 1)) for x in o))
        except Exception:
            return _uniq('set')
    if isinstance(o, _BY_NAME):
        if t is _types.FunctionType and o.__closure__:
            seen[i] = len(seen)
            return ('fn', o.__qualname__) + tuple(_abs(c, seen, depth + 1) for c in o.__closure__)
        return ('n', getattr(o, '__qualname__', None) or getattr(o, '__name__', None) or t.__name__)
    if t is _types.MethodType:
        seen[i] = len(seen)
        return ('m', o.__func__.__qualname__, _abs(o.__self__, seen, depth + 1))
    if t is _types.CellType:
        try:
            return ('cell', _abs(o.cell_contents, seen, depth + 1))
        except ValueError:
            return ('cell-empty',)
    if t in (_types.GeneratorType, _types.CoroutineType, _types.AsyncGeneratorType):
        seen[i] = len(seen)
        fr = getattr(o, 'gi_frame', None) or getattr(o, 'cr_frame', None) or getattr(o, 'ag_frame', None)
        if fr is None:
            return ('gen-done', o.__qualname__)
        running = getattr(o, 'gi_running', False) or getattr(o, 'cr_running', False)
        if running:
            return ('gen-running', o.__qualname__)
        refs = _gc.get_referents(o)
        return ('gen', o.__qualname__, fr.f_lasti) + tuple(
            _abs(r, seen, depth + 1) for r in refs if not isinstance(r, (_types.CodeType, _types.FrameType)))
    if isinstance(o, BaseException):
        seen[i] = len(seen)
        return ('exc', t.__qualname__, _abs(o.args, seen, depth + 1))
    if t is _types.FrameType or t is _types.TracebackType:
        return ('frame',)
    red = None
    if t.__module__ == 'builtins' and t.__name__.endswith('iterator') or t.__name__ in (
            'range', 'enumerate', 'zip', 'map', 'filter', 'reversed', 'islice'):
        try:
            red = o.__reduce__()
        except Exception:
            red = None
        if red is not None:
            seen[i] = len(seen)
            return ('it', t.__name__) + tuple(_abs(x, seen, depth + 1) for x in red[1:])
        return _uniq(t.__name__)
    if any(b.__name__ == 'Scenario' and b.__module__ == 'engine_b.scenario' for b in t.__mro__):
        # the scenario object is configuration (its parameters are fixed for the whole analysis)
        return ('scenario', t.__name__)
    if (t.__module__ or '').startswith('engine_b') and t.__name__ in (
            'Runtime', 'Explorer', 'ThreadCtx', 'OpRec', 'Values', 'CEnv', 'Node', 'Tree') or isinstance(o, Kind_):
        return ('engine', t.__name__)
    d = getattr(o, '__dict__', None)
    if d is not None and not isinstance(o, _types.ModuleType):
        seen[i] = len(seen)
        return ('o', t.__module__, t.__qualname__, _abs(d, seen, depth + 1))
    if t.__name__ in ('SimpleNamespace',):
        seen[i] = len(seen)
        return ('ns', _abs(vars(o), seen, depth + 1))
    return _uniq(t.__name__)


# ---- the value stack of suspended frames (CPython 3.12 layout) ---------------------------------
# What a frame keeps on its evaluation stack while it waits for a call to return — the iterator of a
# `for` loop, a return value held while `finally` runs, operands of a half-evaluated expression — is part
# of the thread's local state but is not in f_locals.  CPython saves the stack pointer of a frame whenever
# it makes an (inlined) Python-to-Python call and resets it to -1 while the frame executes or sits in a C
# call, so a saved pointer always delimits live references.  Layout: PyFrameObject.f_frame at +24;
# _PyInterpreterFrame.stacktop (int) at +64, localsplus[] at +72.  Self-tested at import; when the test
# fails the stack is reported as unknown (the fingerprints then fall back on differential validation).
import ctypes as _ct
import hashlib as _hl


def _frame_stack_raw(f):
    iframe = _ct.c_void_p.from_address(id(f) + 24).value
    if not iframe:
        return None
    stacktop = _ct.c_int.from_address(iframe + 64).value
    co = f.f_code
    nlp = len(co.co_varnames) + len([c for c in co.co_cellvars if c not in co.co_varnames]) + len(co.co_freevars)
    if stacktop < nlp or stacktop > nlp + co.co_stacksize:
        return None
    out = []
    for k in range(nlp, stacktop):
        p = _ct.c_void_p.from_address(iframe + 72 + 8 * k).value
        out.append(_ct.cast(p, _ct.py_object).value if p else None)
    return out


def _stack_selftest():
    if sys.version_info[:2] != (3, 12) or sys.implementation.name != 'cpython':
        return False
    seen = []

    def probe():
        st = _frame_stack_raw(sys._getframe(1))
        seen.append(None if st is None else [(type(o).__name__, o.__reduce__()[2]) if type(o).__name__ == 'list_iterator'
                                             else o for o in st])

    def loop(xs, cell=[0]):
        for x in xs:
            probe()
        try:
            return 41 + cell[0]
        finally:
            probe()

    try:
        for _ in range(3):
            del seen[:]
            loop([7, 8])
        return seen == [[('list_iterator', 1)], [('list_iterator', 2)], [41]]
    except Exception:
        return False


STACK_OK = _stack_selftest() and not os.environ.get('VERIF_NO_FRAME_STACK')


def frame_stack(f):
    return _frame_stack_raw(f) if STACK_OK else None


def fingerprint(ctx, skip=2):
    """Hashable abstraction of the calling thread's local state (all python frames between the
    primitive and the thread's entry point, plus allocation counters and held locks)."""
    f = sys._getframe(skip)
    parts = []
    seen = {}
    while f is not None:
        co = f.f_code
        fn = co.co_filename
        if fn.startswith(_ENGINE_DIR) and fn.endswith('explore.py'):
            if co.co_name in ('run', 'on_thread_start'):
                break
            f = f.f_back
            continue
        try:
            loc = f.f_locals
            stk = frame_stack(f)
            parts.append((co.co_qualname, f.f_lasti, tuple((k, _abs(v, seen, 0)) for k, v in loc.items()),
                          None if stk is None else tuple(_abs(v, seen, 0) for v in stk)))
        except Exception:
            parts.append(_uniq('frame'))
        f = f.f_back
    parts.append(tuple(sorted(ctx.counters.items())))
    parts.append((ctx.extra.get('ending'), ctx.extra.get('ns')))
    parts.append(tuple(sorted((k, v) for k, v in ctx.extra.get('held', {}).items() if v)))
    try:
        tp = tuple(parts)
        # a digest of the printed form, not hash(): hash(0) == hash(False) == hash('') == 0, so tuples that differ only in
        # such a value collide under hash() (a merge of two different local states)
        return _hl.blake2b(repr(tp).encode('utf8', 'backslashreplace'), digest_size=12).hexdigest(), tp
    except TypeError:
        return None, None
