"""Runtime shared by the symbolic-primitive stubs (explore mode) and the gated real
primitives (replay mode).

Explore mode executes ONE thread of the real mpservice code at a time.  Every operation on a
concurrency primitive (lock, deque, queue, future, event, thread, tracked dict / cell, symbolic
input) is routed through `RT.op`.  The primitive does not hold state: its result is a *case* of the
symbolic result, taken from a script (a path prefix) or, beyond the script, enumerated by the
kind's `cases()` function.  The sequence of (operation, case) pairs is the thread's path; the path
condition of a case is the guard over the shared symbolic state defined in `sem.py`.
"""
from __future__ import annotations

import gc
import os
import sys
import threading as _real_threading

REPO_SRC = os.path.realpath(os.environ.get('MPSERVICE_SRC', '/repo/src'))


class Abort(BaseException):
    """Raised inside the code under test to cut a run at the exploration frontier."""


class Unsupported(Exception):
    pass


class ExploreLimit(Exception):
    pass


# --------------------------------------------------------------------------------------------
# value interning: every python value that crosses a primitive gets a stable key and an integer id
# --------------------------------------------------------------------------------------------
class Values:
    def __init__(self):
        self.key2id = {}
        self.rep = []  # id -> representative python object
        self.keys = []
        self.singletons = {}  # id(obj) -> name
        self.custom = []  # (type, keyfunc)
        self.intern(None)  # id 0 is None

    def register_singleton(self, obj, name):
        self.singletons[id(obj)] = (name, obj)

    def register_type(self, typ, keyfunc):
        self.custom.append((typ, keyfunc))

    def key(self, v):
        if v is None:
            return ('none',)
        s = self.singletons.get(id(v))
        if s is not None and s[1] is v:
            return ('sing', s[0])
        t = type(v)
        if t in (bool, int, str, float, bytes):
            return ('lit', t.__name__, v)
        nm = getattr(v, '_vname', None)
        if nm is not None and isinstance(nm, str):
            return ('obj', nm)
        for typ, kf in self.custom:
            if isinstance(v, typ):
                return ('cust', typ.__name__, kf(v, self))
        if t is tuple:
            return ('tup',) + tuple(self.key(x) for x in v)
        if t is list:
            return ('list',) + tuple(self.key(x) for x in v)
        if t is dict:
            return ('dict',) + tuple(sorted((self.key(k), self.key(x)) for k, x in v.items()))
        if isinstance(v, BaseException):
            return ('exc', t.__module__, t.__qualname__, tuple(self.key(a) for a in v.args))
        if isinstance(v, type):
            return ('cls', v.__module__, v.__qualname__)
        if callable(v) and hasattr(v, '__qualname__'):
            slf = getattr(v, '__self__', None)
            clo = getattr(v, '__closure__', None)
            return (
                'fn',
                getattr(v, '__module__', None),
                v.__qualname__,
                self.key(slf) if slf is not None and not isinstance(slf, type(sys)) else None,
                len(clo) if clo else 0,
            )
        raise Unsupported(f'cannot intern value of type {t.__module__}.{t.__qualname__}: {v!r}')

    def intern(self, v):
        k = self.key(v)
        i = self.key2id.get(k)
        if i is None:
            i = len(self.rep)
            self.key2id[k] = i
            self.rep.append(v)
            self.keys.append(k)
        return i

    def show(self, i):
        k = self.keys[i]
        return _show_key(k)


def _show_key(k):
    tag = k[0]
    if tag == 'none':
        return 'None'
    if tag == 'lit':
        return repr(k[2])
    if tag in ('sing', 'obj'):
        return k[1]
    if tag == 'tup':
        return '(' + ', '.join(_show_key(x) for x in k[1:]) + ')'
    if tag == 'list':
        return '[' + ', '.join(_show_key(x) for x in k[1:]) + ']'
    if tag == 'exc':
        return f'{k[2]}(' + ', '.join(_show_key(x) for x in k[3]) + ')'
    if tag == 'fn':
        return f'<fn {k[2]}>'
    if tag == 'cls':
        return f'<class {k[2]}>'
    return str(k)


# --------------------------------------------------------------------------------------------
class ThreadCtx:
    __slots__ = ('name', 'script', 'pos', 'trace', 'counters', 'explore', 'extra')

    def __init__(self, name, script, explore):
        self.name = name
        self.script = list(script)
        self.pos = 0
        self.trace = []  # list of OpRec
        self.counters = {}
        self.explore = explore
        self.extra = {}

    def alloc(self, kind):
        k = self.counters.get(kind, 0)
        self.counters[kind] = k + 1
        return f'{self.name}.{kind}{k}'


class OpRec:
    __slots__ = ('obj', 'kind', 'op', 'args', 'case', 'loc', 'cases')

    def __init__(self, obj, kind, op, args, case, loc, cases):
        self.obj, self.kind, self.op, self.args = obj, kind, op, args
        self.case, self.loc, self.cases = case, loc, cases

    def desc(self):
        return (self.obj, self.kind, self.op, self.args)


def caller_loc(extra_files=()):
    """(file, line, qualname) of the innermost frame that belongs to mpservice or the scenario,
    plus the set of mpservice functions on the stack."""
    f = sys._getframe(2)
    loc = None
    funcs = []
    while f is not None:
        fn = f.f_code.co_filename
        if fn.startswith(REPO_SRC) or fn in extra_files:
            q = (os.path.relpath(fn, REPO_SRC) if fn.startswith(REPO_SRC) else os.path.basename(fn))
            if loc is None:
                loc = (q, f.f_lineno, f.f_code.co_qualname)
            funcs.append((q, f.f_code.co_qualname))
        f = f.f_back
    if loc is None:
        return ('?', 0, '?', ()), funcs
    return loc + (tuple(q for _, q in funcs),), funcs


class Runtime:
    """Global (per process) state of the current run."""

    def __init__(self):
        self.mode = None  # 'explore' | 'replay' | None
        self.vals = Values()
        self.aborting = True
        self.cur: ThreadCtx | None = None
        self.kinds = None  # sem.KINDS, set by explore
        self.objs = {}  # name -> (kind, cfg)   (accumulated over all runs)
        self.universe = {}  # (objname, slot) -> ordered list of value ids
        self.uni_dirty = False
        self.scn_files = ()
        self.funcs_seen = set()
        self.max_ops = 600
        self.chain = []  # pending spawn chain: list of (thread name, script prefix)
        self.target = None  # name of the thread being explored
        self.result = None
        self.replay = None  # replay controller
        self.inputs = {}  # symbolic input name -> number of values
        self.caps = {}
        self.explorer = None
        self.limit_hit = None
        self.error = None
        self.cenv = None

    def current_ctx(self):
        if self.mode == 'replay':
            return self.replay.current_ctx()
        return self.cur

    def cap_for(self, what):
        return self.caps.get(what, {'deque': 3, 'queue': 4, 'pool_jobs': 4, 'pool_workers': 2}[what])

    def on_thread_start(self, th):
        if self.explorer is not None:
            self.explorer.on_thread_start(th)

    # ---- object registry -------------------------------------------------------------
    def declare(self, name, kind, cfg):
        old = self.objs.get(name)
        if old is None:
            self.objs[name] = (kind, dict(cfg))
            if self.cenv is not None:
                for v, (w, init) in self.kinds[kind].vars(name, cfg, self.cenv).items():
                    if init:
                        self.cenv.var_init[v] = init
        elif old[0] != kind or old[1] != dict(cfg):
            raise Unsupported(f'object {name} re-declared differently: {old} vs {(kind, cfg)}')

    def uni(self, obj, slot='v'):
        return self.universe.setdefault((obj, slot), [])

    def uni_add(self, obj, vid, slot='v'):
        u = self.universe.setdefault((obj, slot), [])
        if vid not in u:
            u.append(vid)
            self.uni_dirty = True

    # ---- the single entry point of all primitives ------------------------------------------
    def fatal(self, e):
        if self.error is None:
            self.error = e
        self.aborting = True
        raise Abort()

    def op(self, obj, op, *args):
        """`obj` is a stub with ._vname/._kind; args are python values (interned here)."""
        if self.mode == 'replay':
            return self.replay.op(obj, op, args)
        if self.aborting or self.mode != 'explore':
            raise Abort()
        try:
            ctx = self.cur
            K = self.kinds[obj._kind]
            iargs = K.intern_args(self, obj, op, args)
            K.note(self, obj, op, iargs)
            loc, funcs = caller_loc(self.scn_files)
            self.funcs_seen.update(funcs)
            if ctx.pos < len(ctx.script):
                case = ctx.script[ctx.pos]
            else:
                if not ctx.explore:
                    raise Unsupported(f'ancestor {ctx.name} ran past its prefix')
                case = self.explorer.pick(ctx, obj, op, iargs, loc)
                if case == 'ALIAS':
                    self.aborting = True
                    raise Abort()
                if case is None:
                    ctx.trace.append(OpRec(obj._vname, obj._kind, op, iargs, None, loc, None))
                    self.aborting = True
                    raise Abort()
                ctx.script.append(case)
            ctx.pos += 1
            ctx.trace.append(OpRec(obj._vname, obj._kind, op, iargs, case, loc, None))
            if len(ctx.trace) > self.max_ops:
                self.limit_hit = f'thread {ctx.name}: more than {self.max_ops} operations on one path'
                self.aborting = True
                raise Abort()
        except Unsupported as e:
            self.fatal(e)
        return K.realize(self, obj, op, iargs, case, args)


RT = Runtime()


def reset_runtime():
    global RT
    RT.__init__()
    return RT
