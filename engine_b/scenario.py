"""Scenario base class and the analysis driver (explore -> product -> queries)."""
from __future__ import annotations

import sys
import time

from . import rt as _rtmod
from . import stubs
from .bmc import Encoding, Product
from .explore import Explorer


class Scenario:
    name = 'scenario'
    modules = ['mpservice._queues', 'mpservice.threading', 'mpservice.concurrent.futures',
               'mpservice.streamer._streamer']
    deque_in = ('mpservice._queues',)
    caps = {}
    halt = False  # prefix semantics (needed for step invariants)
    max_ops = 600
    params = {}

    def main(self):
        raise NotImplementedError

    def is_fail(self, thread, status):
        kind, val = status
        if kind == 'raised':
            return True
        return thread == 'main' and val is not None

    def invariant(self, env, S):
        return None

    def extra_patches(self):
        return ()

    def describe(self):
        return {'scenario': self.name, **self.params}


def analyze(scn, timeout_s=900, reduce=True, por=True, K=None, want_witness=True, verbose=False,
            slack=0, seed=0, max_states=20000, max_explore_s=30.0, max_iters=200):
    """Returns a dict: verdict in {'holds','violation','inconclusive'}, queries, stats, cex."""
    rt = _rtmod.reset_runtime()
    rt.caps = dict(scn.caps)
    rt.max_ops = scn.max_ops
    rt.scn_files = (sys.modules[type(scn).__module__].__file__,)
    res = {'scenario': scn.describe(), 'queries': [], 'verdict': 'inconclusive', 'iterations': 0}
    t0 = time.time()
    solver_s = 0.0
    with stubs.patched(scn.modules, deque_in=scn.deque_in, extra=scn.extra_patches()):
        ex = Explorer(scn, seed=seed, verbose=verbose)
        try:
            ex.explore(max_states=max_states, max_s=max_explore_s)
        except Exception as e:
            res['reason'] = f'exploration: {type(e).__name__}: {e}'
            return res
        while True:
            res['iterations'] += 1
            if res['iterations'] > max_iters:
                res['reason'] = 'frontier closure did not converge'
                return res
            try:
                prod = Product(ex, scn, reduce=reduce)
            except Exception as e:
                res['reason'] = f'product: {type(e).__name__}: {e}'
                return res
            depth = sum(prod.depth(t) for t in prod.threads)
            KK = K or (depth + slack)
            t1 = time.time()
            enc = Encoding(prod, scn, por=por, halt=scn.halt).unroll(KK)
            enc_s = time.time() - t1
            r, dt, m = enc.query('violation', timeout_s)
            solver_s += dt
            if verbose:
                print(f'  iter {res["iterations"]}: K={KK} {prod.stats()} encode={enc_s:.1f}s '
                      f'violation/frontier query: {r} {dt:.1f}s', file=sys.stderr)
            if r == 'sat':
                kind, k = enc.why(m)
                steps, inputs = enc.schedule(m)
                steps = [s for s in steps if s['k'] < k]
                if kind == 'frontier':
                    res['queries'].append({'query': 'frontier', 'result': 'sat', 'solver_s': round(dt, 2)})
                    try:
                        ex.continue_from([(s['thread'], s['prims']) for s in steps], inputs, None)
                    except Exception as e:
                        res['reason'] = f'frontier expansion: {type(e).__name__}: {e}'
                        return res
                    continue
                res['queries'].append({'query': 'violation', 'result': r, 'solver_s': round(dt, 2), 'K': KK})
                res.update(verdict='violation', cex={'kind': kind, 'step': k, 'inputs': inputs, 'steps': steps,
                                                    'where': where_threads(enc, prod, m, k)})
                break
            res['queries'].append({'query': 'violation-or-frontier', 'result': r, 'solver_s': round(dt, 2), 'K': KK})
            if r != 'unsat':
                res['reason'] = f'violation query: {r}'
                break
            r2, dt2, m2 = enc.query('bound', timeout_s)
            solver_s += dt2
            res['queries'].append({'query': 'bound', 'result': r2, 'solver_s': round(dt2, 2), 'K': KK})
            if r2 != 'unsat':
                res['reason'] = f'bound check {r2}: K={KK} or a container bound is too small'
                break
            if want_witness:
                r3, dt3, m3 = enc.query('witness', timeout_s)
                solver_s += dt3
                res['queries'].append({'query': 'witness', 'result': r3, 'solver_s': round(dt3, 2), 'K': KK})
                if r3 != 'sat':
                    res['reason'] = f'vacuity: no complete correct run exists ({r3})'
                    break
                steps, inputs = enc.schedule(m3)
                res['witness'] = {'inputs': inputs, 'steps': steps}
            res['verdict'] = 'holds'
            break
    res['explore'] = ex.stats()
    res['functions'] = sorted(f'{f}:{q}' for f, q in rt.funcs_seen)
    res['product'] = prod.stats()
    res['K'] = KK
    res['solver_s'] = round(solver_s, 2)
    res['wall_s'] = round(time.time() - t0, 2)
    res['_enc'], res['_prod'], res['_ex'] = enc, prod, ex
    return res


def where_threads(enc, prod, m, k):
    """Per thread: the operation it sits at in the violating state."""
    out = {}
    if k is None:
        return out
    st = enc.final_state(m, k)
    for t in prod.threads:
        aut = prod.auts[t]
        pc = st[f'$pc.{t}']
        if pc in aut.terminal:
            out[t] = f'terminated {aut.terminal[pc]}'
        elif pc in aut.info:
            (obj, kind, op, iargs), loc = aut.info[pc]
            out[t] = f'{kind}.{op}({obj}) at {loc[0]}:{loc[1]} in {loc[2]}'
        else:
            out[t] = f'pc={pc}'
    return out


def show_cex(res, file=sys.stderr):
    cex = res.get('cex')
    if not cex:
        return
    rt = _rtmod.RT
    print(f"violation kind={cex['kind']} at step {cex['step']} inputs={cex['inputs']}", file=file)
    for s in cex['steps']:
        ops = ' ; '.join(f"{d[0].split('.')[-1]}.{d[2]}{show_args(rt, d)}->{show_case(rt, c)}" for d, c in s['prims'])
        loc = s['locs'][0] if s.get('locs') else ''
        print(f"  {s['k']:3d} {s['thread']:<28s} {ops}   @{loc}", file=file)
    for t, w in cex['where'].items():
        print(f'  [{t}] {w}', file=file)


def show_args(rt, d):
    obj, kind, op, iargs = d
    try:
        if kind in ('Seq', 'Future', 'Dict', 'Cell', 'Pool') and iargs and op in (
                'append', 'appendleft', 'put', 'set_result', 'set_exception', 'setitem', 'set', 'submit', 'pop',
                'getitem', 'get'):
            if kind == 'Seq' and op == 'get':
                return ''
            return '(' + ','.join(rt.vals.show(a) if isinstance(a, int) and not isinstance(a, bool) else str(a)
                                  for a in iargs[: 2 if kind == 'Dict' else 1]) + ')'
    except Exception:
        pass
    return ''


def show_case(rt, c):
    if isinstance(c, tuple) and len(c) == 2 and isinstance(c[1], int):
        return f'{c[0]}:{rt.vals.show(c[1])}'
    return str(c)
