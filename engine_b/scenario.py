"""Scenario base class and the analysis driver (explore -> product -> queries)."""
from __future__ import annotations

import sys
import time

from . import rt as _rtmod
from . import stubs
from .bmc import Encoding, Product
from .explore import Explorer


class Scenario:
    name = 'scenario'
    modules = ['mpservice._queues', 'mpservice.threading', 'mpservice.concurrent.futures',
               'mpservice.streamer._streamer']
    deque_in = ('mpservice._queues',)
    caps = {}
    halt = False  # prefix semantics (needed for step invariants)
    max_ops = 600
    params = {}

    def main(self):
        raise NotImplementedError

    def is_fail(self, thread, status):
        kind, val = status
        if kind == 'raised':
            return True
        return thread == 'main' and val is not None

    def invariant(self, env, S):
        return None

    def extra_patches(self):
        return ()

    def describe(self):
        return {'scenario': self.name, **self.params}


def analyze_bmc(scn, timeout_s=900, reduce=True, por=True, K=None, want_witness=True, verbose=False,
            slack=0, seed=0, max_states=20000, max_explore_s=30.0, max_iters=200, deepen=True, on_violation=None):
    """Returns a dict: verdict in {'holds','violation','inconclusive'}, queries, stats, cex."""
    rt = _rtmod.reset_runtime()
    rt.caps = dict(scn.caps)
    rt.max_ops = scn.max_ops
    rt.scn_files = (sys.modules[type(scn).__module__].__file__,)
    res = {'scenario': scn.describe(), 'queries': [], 'verdict': 'inconclusive', 'iterations': 0,
           'known': []}
    exclude = []
    t0 = time.time()
    solver_s = 0.0
    with stubs.patched(scn.modules, deque_in=scn.deque_in, extra=scn.extra_patches()):
        ex = Explorer(scn, seed=seed, verbose=verbose)
        try:
            ex.explore(max_states=max_states, max_s=max_explore_s)
        except Exception as e:
            res['reason'] = f'exploration: {type(e).__name__}: {e}'
            return res
        while True:
            res['iterations'] += 1
            if res['iterations'] > max_iters:
                res['reason'] = 'frontier closure did not converge'
                return res
            try:
                prod = Product(ex, scn, reduce=reduce)
            except Exception as e:
                res['reason'] = f'product: {type(e).__name__}: {e}'
                return res
            depth = sum(prod.depth(t) for t in prod.threads)
            Kfull = K or (depth + slack)
            # deepening: a violation or a frontier edge is usually reachable in far fewer steps
            for KK in ([max(6, Kfull // 3), max(8, (2 * Kfull) // 3)] if deepen and Kfull > 14 else []) + [Kfull]:
                t1 = time.time()
                enc = Encoding(prod, scn, por=por, halt=scn.halt, exclude=exclude).unroll(KK)
                enc_s = time.time() - t1
                r, dt, m = enc.query('violation', timeout_s)
                solver_s += dt
                if r != 'unsat':
                    break
                if KK != Kfull:
                    res['queries'].append({'query': 'violation-or-frontier', 'result': r,
                                           'solver_s': round(dt, 2), 'K': KK})
            if verbose:
                print(f'  iter {res["iterations"]}: K={KK} {prod.stats()} encode={enc_s:.1f}s '
                      f'violation/frontier query: {r} {dt:.1f}s', file=sys.stderr)
            if r == 'sat':
                kind, k = enc.why(m)
                steps, inputs = enc.schedule(m)
                steps = [s for s in steps if s['k'] < k]
                if kind == 'frontier':
                    res['queries'].append({'query': 'frontier', 'result': 'sat', 'solver_s': round(dt, 2)})
                    try:
                        ex.continue_from([(s['thread'], s['prims']) for s in steps], inputs, None)
                    except Exception as e:
                        res['reason'] = f'frontier expansion: {type(e).__name__}: {e}'
                        return res
                    continue
                if kind == 'overflow':
                    res['reason'] = 'a container bound of the model (cap) is reachable: raise caps'
                    break
                res['queries'].append({'query': 'violation', 'result': r, 'solver_s': round(dt, 2), 'K': KK})
                cex = {'kind': kind, 'step': k, 'inputs': inputs, 'steps': steps,
                       'where': where_threads(enc, prod, m, k), 'signature': signature(enc, prod, m, k, kind)}
                if on_violation is not None:
                    # the caller replays it on the real code; a reproduced violation that is a listed
                    # known finding is excluded from the query and the search goes on
                    decision = on_violation(cex)
                    if decision is not None:
                        exclude.append(decision)
                        res['known'].append(cex)
                        continue
                res.update(verdict='violation', cex=cex)
                break
            res['queries'].append({'query': 'violation-or-frontier', 'result': r, 'solver_s': round(dt, 2), 'K': KK})
            if r != 'unsat':
                res['reason'] = f'violation query: {r}'
                break
            if prod.cyclic or K:
                # K is not a structural upper bound of the run length: discharge the unwinding check
                r2, dt2, m2 = enc.query('bound', timeout_s)
                solver_s += dt2
                res['queries'].append({'query': 'bound', 'result': r2, 'solver_s': round(dt2, 2), 'K': KK})
                if r2 != 'unsat':
                    res['reason'] = f'bound check {r2}: K={KK} is too small'
                    break
            else:
                res['K_is_structural_bound'] = True
            if want_witness:
                r3, dt3, m3 = enc.query('witness', timeout_s)
                solver_s += dt3
                res['queries'].append({'query': 'witness', 'result': r3, 'solver_s': round(dt3, 2), 'K': KK})
                if r3 != 'sat':
                    res['reason'] = f'vacuity: no complete correct run exists ({r3})'
                    break
                steps, inputs = enc.schedule(m3)
                res['witness'] = {'inputs': inputs, 'steps': steps}
            res['verdict'] = 'holds'
            break
    res['explore'] = ex.stats()
    res['functions'] = sorted(f'{f}:{q}' for f, q in rt.funcs_seen)
    res['product'] = prod.stats()
    res['K'] = KK
    res['solver_s'] = round(solver_s, 2)
    res['wall_s'] = round(time.time() - t0, 2)
    res['_enc'], res['_prod'], res['_ex'] = enc, prod, ex
    return res


def analyze(scn, **kw):
    """analyze_once, restarted when a fingerprint merge is refuted (the offending fingerprints are black-listed)."""
    from . import explore as _ex
    _ex.FP_BLACKLIST.clear()
    for attempt in range(8):
        res = analyze_once(scn, **kw)
        bad = res.pop('_merge_refuted', None)
        if not bad:
            res['merge_restarts'] = attempt
            return res
        _ex.FP_BLACKLIST.update(bad)
    res['reason'] = 'fingerprint merges kept being refuted'
    return res


def analyze_once(scn, timeout_s=900, reduce=True, verbose=False, seed=0, raw_states=30000, raw_s=20.0,
            red_states=3_000_000, red_s=900.0, max_iters=60, on_violation=None, want_witness=True,
            local_states=300, **_ignored):
    """Inductive-invariant analysis (induct.py).  Returns a dict: verdict in
    {'holds','violation','inconclusive'}, queries, stats, cex / witness (as schedules)."""
    from .induct import Inductive
    rt = _rtmod.reset_runtime()
    rt.caps = dict(scn.caps)
    rt.max_ops = scn.max_ops
    rt.scn_files = (sys.modules[type(scn).__module__].__file__,)
    res = {'scenario': scn.describe(), 'queries': [], 'verdict': 'inconclusive', 'iterations': 0,
           'known': [], 'method': 'inductive invariant (1-induction over a learned state set)'}
    exclude = []
    t0 = time.time()
    solver_s = 0.0
    prod = ind = None
    with stubs.patched(scn.modules, deque_in=scn.deque_in, extra=scn.extra_patches(),
                       tracked=getattr(scn, 'tracked', ())):
        ex = Explorer(scn, seed=seed, verbose=verbose)
        def refuted(e):
            # black-list every fingerprint on the merged node's alternative histories
            n = e.node
            fps = set()
            m = n
            while m is not None:
                if m.fp is not None:
                    fps.add((e.tname, m.fp))
                m = m.parent
            return fps

        try:
            ex.explore(max_states=raw_states, max_s=raw_s)
        except Exception as e:
            from .explore import MergeRefuted
            if isinstance(e, MergeRefuted):
                res['_merge_refuted'] = refuted(e)
            res['reason'] = f'exploration: {type(e).__name__}: {e}'
            return res

        def steps_of(path, extra=None):
            st = [(t, [(d, c) for d, c, _ in e.prims]) for (t, e) in path]
            if extra is not None:
                t, e = extra
                st.append((t, [(d, c) for d, c, _ in e.prims]))
            return st

        while True:
            res['iterations'] += 1
            if res['iterations'] > max_iters:
                res['reason'] = 'frontier closure did not converge'
                break
            try:
                prod = Product(ex, scn, reduce=reduce)
                ind = Inductive(prod, scn, exclude=exclude, cenv=ex.cenv)
                t1 = time.time()
                complete, fhits = ind.red.explore(max_states=red_states, max_s=red_s)
                red_t = time.time() - t1
            except Exception as e:
                res['reason'] = f'product: {type(e).__name__}: {e}'
                break
            if verbose:
                print(f'  iter {res["iterations"]}: {prod.stats()} reduced_states={len(ind.red.states)} '
                      f'complete={complete} frontier_hits={len(fhits)} ({red_t:.1f}s)', file=sys.stderr)
            if fhits:
                # parts of some thread's tree have not been executed yet: execute them and rebuild
                seen = set()
                try:
                    for (k, t, e) in fhits[:4000]:
                        path = ind.red.path_to(k)
                        # the thread's own path in its tree identifies the frontier edge
                        sig = (t, tuple(c for (t2, e2) in path if t2 == t for _, c, _ in e2.prims),
                               tuple(c for _, c, _ in e.prims))
                        if sig in seen:
                            continue
                        seen.add(sig)
                        ex.continue_from(steps_of(path, (t, e)), {}, None,
                                         max_states=local_states, max_s=2.0)
                except Exception as e_:
                    from .explore import MergeRefuted
                    if isinstance(e_, MergeRefuted):
                        res['_merge_refuted'] = refuted(e_)
                    res['reason'] = f'frontier expansion: {type(e_).__name__}: {e_}'
                    break
                continue
            if not complete:
                res['reason'] = f'reduced product has more than {len(ind.red.states)} states (budget)'
                break
            try:
                out = ind.check(timeout_s)
                if out['result'] == 'inductive-safe':
                    # no deadlock state in R.  States from which completion is nevertheless unreachable
                    # (traps in which threads only spin) are looked for on the explored graph and
                    # confirmed by replay; their absence is certified by the solver's progress query.
                    doomed = ind.doomed(accept=(lambda k_: excluded_state(prod, scn, ind, k_, exclude)) if exclude else None)
                    if doomed:
                        # prefer a trap that no value of the inputs still to be read can leave: the replay then does not
                        # depend on inputs the schedule has not fixed yet
                        acc = (lambda k_: excluded_state(prod, scn, ind, k_, exclude)) if exclude else None
                        ok_some = ind.red.can_finish(acc)
                        hard = [k_ for k_ in doomed if k_ not in ok_some]
                        k = min(hard or doomed, key=lambda k_: len(ind.red.path_to(k_)))
                        out = {'result': 'bad', 'kind': 'deadlock', 'queries': out['queries'],
                               'state': {'pcs': k[0], 'vals': k[1], 'ins': tuple(0 if x is None else x for x in k[2])},
                               'R_states': len(ind.red.states), 'key': k, 'livelock': True}
                    else:
                        q = ind.progress_check(timeout_s)
                        out['queries'].append(q)
                        if q['result'] != 'unsat':
                            out['result'] = 'unknown'
                            out['detail'] = f'progress certificate {q["result"]}'
            except Exception as e:
                import traceback
                res['reason'] = f'inductive check: {type(e).__name__}: {e} {traceback.format_exc()[-600:]}'
                break
            for q in out['queries']:
                q['R_states'] = out.get('R_states')
                res['queries'].append(q)
                solver_s += q['solver_s']
            if verbose:
                print(f'  check: {out["result"]} {out["queries"]}', file=sys.stderr)
            r = out['result']
            if r == 'unknown':
                res['reason'] = 'solver answered unknown / timed out'
                break
            if r in ('frontier', 'not-closed'):
                k = ind.find_key(out['state'])
                if k is None:
                    res['reason'] = 'consecution counterexample does not start in an explored state'
                    break
                t, prims, edges = prod.actions[out['action']]
                ti = prod.threads.index(t)
                e = next((e for e in edges if e.src == out['state']['pcs'][ti]), None)
                if r == 'not-closed' or e is None:
                    res['reason'] = ('the learned state set is not closed under the symbolic transition relation '
                                     f'(action {prims}); concrete and symbolic back ends of a stub disagree')
                    break
                try:
                    ex.continue_from(steps_of(ind.red.path_to(k), (t, e)), {}, None, max_states=local_states, max_s=2.0)
                except Exception as e_:
                    res['reason'] = f'frontier expansion: {type(e_).__name__}: {e_}'
                    break
                continue
            if r == 'bad':
                kind = out.get('kind')
                if kind == 'overflow':
                    res['reason'] = 'a container bound of the model (cap) is reachable: raise caps'
                    break
                k = out.get('key') or ind.find_key(out['state'])
                path = ind.red.path_to(k)
                steps = [{'k': i, 'thread': t, 'prims': [(d, c) for d, c, _ in e.prims],
                          'locs': [l for _, _, l in e.prims]} for i, (t, e) in enumerate(path)]
                inputs = {n: (v if v is not None else 0) for n, v in zip(ind.red.inames, k[2])}
                cex = {'kind': kind, 'step': len(steps), 'inputs': inputs, 'steps': steps,
                       'where': where_pcs(prod, out['state']['pcs']),
                       'signature': signature_pcs(prod, scn, out['state'], ind, kind)}
                if on_violation is not None:
                    decision = on_violation(cex)
                    if decision is not None:
                        exclude.append(decision)
                        res['known'].append(cex)
                        continue
                res.update(verdict='violation', cex=cex)
                break
            # inductive and safe
            if want_witness:
                q, st = ind.witness()
                res['queries'].append(q)
                solver_s += q['solver_s']
                if st is None:
                    res['reason'] = f'vacuity: no complete correct run exists in the invariant ({q["result"]})'
                    break
                k = ind.find_key(st)
                path = ind.red.path_to(k)
                res['witness'] = {
                    'inputs': {n: (v if v is not None else 0) for n, v in zip(ind.red.inames, k[2])},
                    'steps': [{'k': i, 'thread': t, 'prims': [(d, c) for d, c, _ in e.prims]} for i, (t, e) in enumerate(path)]}
            res['verdict'] = 'holds'
            break
    res['explore'] = ex.stats()
    res['functions'] = sorted(f'{f}:{q}' for f, q in rt.funcs_seen)
    if prod is not None:
        res['product'] = prod.stats()
    if ind is not None:
        res['invariant_states'] = len(ind.red.states)
    res['solver_s'] = round(solver_s, 2)
    res['wall_s'] = round(time.time() - t0, 2)
    return res


def doomed_set(doomed, _cache={}):
    i = id(doomed)
    if _cache.get('id') != i:
        _cache['id'] = i
        _cache['set'] = set(doomed)
    return _cache['set']


def excluded_state(prod, scn, ind, k, exclude):
    """Is explored state k covered by a known-finding signature (kind deadlock)?"""
    if not exclude:
        return False
    st = {'pcs': k[0], 'vals': k[1]}
    sig = signature_pcs(prod, scn, st, ind, 'deadlock')
    for e in exclude:
        if e.get('kind') == 'deadlock' and e.get('where') == sig['where']:
            return True
    return False


def where_pcs(prod, pcs):
    out = {}
    for t, pc in zip(prod.threads, pcs):
        aut = prod.auts[t]
        if pc in aut.terminal:
            out[t] = f'terminated {aut.terminal[pc]}'
        elif pc in aut.info:
            (obj, kind, op, iargs), loc = aut.info[pc]
            out[t] = f'{kind}.{op}({obj}) at {loc[0]}:{loc[1]} in {loc[2]}'
        else:
            out[t] = f'pc={pc}'
    return out


def signature_pcs(prod, scn, st, ind, kind):
    from .bmc import node_label
    where = {}
    tag = None
    vals = dict(zip(ind.red.names, st['vals']))
    for t, pc in zip(prod.threads, st['pcs']):
        aut = prod.auts[t]
        lab = node_label(aut, pc)
        if kind == 'fail' and pc in aut.terminal and scn.is_fail(t, aut.terminal[pc]):
            tag = str(aut.terminal[pc][1]).split(':')[0]
        if lab.startswith('terminated'):
            continue
        if vals.get(f'{t}.st') == 0 and pc == aut.init:
            continue
        where[t] = lab
    sig = {'kind': kind, 'where': where}
    if tag is not None:
        sig['tag'] = tag
    return sig


def where_threads(enc, prod, m, k):
    """Per thread: the operation it sits at in the violating state."""
    out = {}
    if k is None:
        return out
    st = enc.final_state(m, k)
    for t in prod.threads:
        aut = prod.auts[t]
        pc = st[f'$pc.{t}']
        if pc in aut.terminal:
            out[t] = f'terminated {aut.terminal[pc]}'
        elif pc in aut.info:
            (obj, kind, op, iargs), loc = aut.info[pc]
            out[t] = f'{kind}.{op}({obj}) at {loc[0]}:{loc[1]} in {loc[2]}'
        else:
            out[t] = f'pc={pc}'
    return out


def signature(enc, prod, m, k, kind):
    """Line-number free signature of a violation: kind + label of every live thread's position."""
    from .bmc import node_label
    st = enc.final_state(m, k)
    where = {}
    tag = None
    for t in prod.threads:
        aut = prod.auts[t]
        pc = st[f'$pc.{t}']
        lab = node_label(aut, pc)
        if kind == 'fail' and pc in aut.terminal and enc.scn.is_fail(t, aut.terminal[pc]):
            tag = str(aut.terminal[pc][1]).split(':')[0]
        if lab.startswith('terminated'):
            continue
        stv = f'{t}.st'
        if stv in st and st[stv] == 0 and pc == aut.init:
            continue  # never started
        where[t] = lab
    sig = {'kind': kind, 'where': where}
    if tag is not None:
        sig['tag'] = tag
    return sig


def show_cex(res, file=sys.stderr):
    cex = res.get('cex')
    if not cex:
        return
    rt = _rtmod.RT
    print(f"violation kind={cex['kind']} at step {cex['step']} inputs={cex['inputs']}", file=file)
    for s in cex['steps']:
        ops = ' ; '.join(f"{d[0].split('.')[-1]}.{d[2]}{show_args(rt, d)}->{show_case(rt, c)}" for d, c in s['prims'])
        loc = s['locs'][0] if s.get('locs') else ''
        print(f"  {s['k']:3d} {s['thread']:<28s} {ops}   @{loc}", file=file)
    for t, w in cex['where'].items():
        print(f'  [{t}] {w}', file=file)


def show_args(rt, d):
    obj, kind, op, iargs = d
    try:
        if kind in ('Seq', 'Future', 'Dict', 'Cell', 'Pool') and iargs and op in (
                'append', 'appendleft', 'put', 'set_result', 'set_exception', 'setitem', 'set', 'submit', 'pop',
                'getitem', 'get'):
            if kind == 'Seq' and op == 'get':
                return ''
            return '(' + ','.join(rt.vals.show(a) if isinstance(a, int) and not isinstance(a, bool) else str(a)
                                  for a in iargs[: 2 if kind == 'Dict' else 1]) + ')'
    except Exception:
        pass
    return ''


def show_case(rt, c):
    if isinstance(c, tuple) and len(c) == 2 and isinstance(c[1], int):
        return f'{c[0]}:{rt.vals.show(c[1])}'
    return str(c)
