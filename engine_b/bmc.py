"""Product of the per-thread automata as one bounded SMT query (QF_BV).

  * the scheduler choice of every step is a symbolic variable (`sel_k` ranges over all actions);
  * inputs / environment choices are symbolic constants;
  * violation = deadlock (incl. spinning forever), a FAIL terminal of the driver, a broken state
    invariant, or an exhausted model bound ($overflow);
  * reductions: thread-local steps and Lipton transactions are fused (sound for state
    reachability), and a partial-order constraint forbids adjacent independent steps in descending
    thread order.
"""
from __future__ import annotations

import time
from collections import defaultdict

import z3

from .rt import Unsupported
from .sem import KINDS, SymState, bv


class Env:
    def __init__(self, rt, threads):
        self.rt = rt
        self.VW = max(2, (len(rt.vals.rep)).bit_length())
        self.tid = {t: i + 1 for i, t in enumerate(threads)}
        self.inputs = {}
        for n, k in rt.inputs.items():
            self.inputs[n] = z3.BitVec(f'in_{n}', max(1, (k - 1).bit_length()))

    def uni(self, name, slot='v'):
        return self.rt.universe.get((name, slot), [])

    def input_var(self, n):
        return self.inputs[n]

    def input_width(self, n):
        return self.inputs[n].size()


# ---------------------------------------------------------------------------------------------
class MEdge:
    __slots__ = ('src', 'dst', 'prims', 'act', 'spin')

    def __init__(self, src, dst, prims):
        self.src, self.dst, self.prims = src, dst, prims
        self.act = None
        self.spin = False


class Automaton:
    """Per-thread graph over *stable* nodes with macro edges (fused transactions)."""

    def __init__(self, name):
        self.name = name
        self.edges = []
        self.nodes = {}  # stable node key -> index
        self.terminal = {}  # index -> status
        self.init = 0
        self.info = {}  # index -> (desc, loc) of the first op
        self.frontier = None  # index of the FRONTIER sink (edges never executed)

    def nid(self, key):
        i = self.nodes.get(key)
        if i is None:
            i = len(self.nodes)
            self.nodes[key] = i
        return i


def _held_locks(tree_nodes):
    """Per tree node: multiset of locks acquired on the path (thread-local knowledge)."""
    held = {}
    for n in tree_nodes:  # nodes are created parent-first
        if n.parent is None:
            held[n.id] = {}
            continue
        h = dict(held[n.parent.id])
        obj, kind, op, iargs = n.parent.desc
        if kind == 'Lock':
            if op == 'acquire' and n.pcase == 'ok':
                h[obj] = h.get(obj, 0) + 1
            elif op == 'release' and n.pcase == 'ok' and h.get(obj, 0) > 0:
                h[obj] -= 1
                if not h[obj]:
                    del h[obj]
        held[n.id] = h
    return held


class Product:
    def __init__(self, explorer, scn, reduce=True, minimize=True, explicit_frontier=False):
        self.explicit_frontier = explicit_frontier
        self.ex = explorer
        self.scn = scn
        self.rt = explorer_rt(explorer)
        self.threads = list(explorer.order)
        self.env = Env(self.rt, self.threads)
        self.reduce = reduce
        self.auts = {}
        self.cyclic = False
        self._classify()
        for t in self.threads:
            self.auts[t] = self._build_aut(t)
        self.raw_nodes = sum(len(a.nodes) for a in self.auts.values())
        self.raw_edges = sum(len(a.edges) for a in self.auts.values())
        if minimize:
            for t in self.threads:
                self.auts[t] = self._minimize(self.auts[t])
        self._actions()

    def cases_of(self, n):
        from .explore import over_budget
        obj, kind, op, iargs = n.desc
        if kind == 'Input':
            return list(range(iargs[1]))
        return [c for c in KINDS[kind].cases(self.rt, obj, op, iargs) if not over_budget(n, c)]

    # ---- mover analysis ------------------------------------------------------------------
    def _classify(self):
        ex = self.ex
        self.held = {t: _held_locks(ex.threads[t].tree.nodes) for t in self.threads}
        # locks released by a thread that does not hold them are not mutexes (e.g. Condition waiter locks)
        nonmutex = set()
        for t in self.threads:
            for n in ex.threads[t].tree.nodes:
                if n.desc is None:
                    continue
                obj, kind, op, iargs = n.desc
                if kind == 'Lock' and op == 'release' and obj not in self.held[t][n.id]:
                    nonmutex.add(obj)
        self.nonmutex = nonmutex
        # per object: distinct (thread, writes?, lockset) access classes
        self.acc = defaultdict(set)
        self.node_ls = {}
        self.node_w = {}
        for t in self.threads:
            for n in ex.threads[t].tree.nodes:
                if n.desc is None:
                    continue
                obj, kind, op, iargs = n.desc
                ls = frozenset(k for k in self.held[t][n.id] if k not in nonmutex)
                w = not all(KINDS[kind].preserving(op, iargs, c) for c in (self.cases_of(n) or ['ok']))
                self.node_ls[(t, n.id)] = ls
                self.node_w[(t, n.id)] = w
                self.acc[obj].add((t, w, ls))
        self.obj_threads = {o: set(a[0] for a in lst) for o, lst in self.acc.items()}
        self._mv_cache = {}

    def mover(self, t, n):
        """'B' both-mover, 'R' right, 'L' left, 'N' non-mover, for the op at tree node n of thread t.
        An access is a both-mover when every conflicting access (another thread, at least one of the
        two writes) holds a mutex in common with it."""
        obj, kind, op, iargs = n.desc
        if kind == 'Input':
            return 'B'
        if kind == 'Counter':
            return 'N'  # observed by the step invariant at every instant
        if obj in getattr(self.scn, 'observed', ()) and self.node_w.get((t, n.id)):
            return 'N'
        if len(self.obj_threads.get(obj, ())) <= 1 and kind != 'Thread':
            return 'B'
        if kind == 'Lock':
            if obj in self.nonmutex:
                return 'N'
            if op == 'release':
                return 'L'
            if op == 'acquire' and iargs[0] and not iargs[1]:
                return 'R'
            return 'N'
        ls = self.node_ls[(t, n.id)]
        w = self.node_w[(t, n.id)]
        key = (obj, t, w, ls)
        r = self._mv_cache.get(key)
        if r is None:
            r = 'B'
            for (t2, w2, ls2) in self.acc[obj]:
                if t2 != t and (w or w2) and not (ls & ls2):
                    r = 'N'
                    break
            self._mv_cache[key] = r
        return r

    # ---- transactions --------------------------------------------------------------------
    def _build_aut(self, t):
        tree = self.ex.threads[t].tree
        aut = Automaton(t)
        alias_targets = set()
        for n in tree.nodes:
            for c, ch in n.children.items():
                if ch.depth <= n.depth:  # back edge
                    alias_targets.add(ch.id)
        aut.init = aut.nid(tree.root.id)
        aut.frontier = aut.nid('FRONTIER')
        todo = [tree.root]
        seen = {tree.root.id}

        def out_edges(m):
            """(case, child) for every executed case of the op at node m, plus one ELSE edge
            (child None = FRONTIER) standing for all cases that were never executed."""
            res = list(m.children.items())
            if self.explicit_frontier:
                for c in self.cases_of(m):
                    if c not in m.children:
                        res.append((c, None))
            else:
                cs = self.cases_of(m)
                if any(c not in m.children for c in cs) or not cs:
                    res.append((('$else', tuple(sorted(m.children, key=repr))), None))
            return res

        while todo:
            s = todo.pop()
            si = aut.nid(s.id)
            if s.terminal is not None:
                aut.terminal[si] = s.terminal
                continue
            if s.desc is None:
                # never executed at all: its first operation is unknown -> frontier by itself
                aut.edges.append(MEdge(si, aut.frontier, [(('?', 'Unknown', 'first-op', ()), 'ok', None)]))
                continue
            aut.info[si] = (s.desc, s.loc)
            first_m = self.mover(t, s)
            stack = []
            ph0 = 'POST' if first_m in ('N', 'L') else 'PRE'
            for c, ch in out_edges(s):
                stack.append((ch, [(s.desc, c, s.loc)], ph0))
            while stack:
                m, prims, ph = stack.pop()
                if m is None:
                    aut.edges.append(MEdge(si, aut.frontier, prims))
                    continue
                internal = False
                if (self.reduce and m.desc is not None and m.terminal is None
                        and m.id not in alias_targets and m.depth > s.depth and len(prims) < 60):
                    obj, kind, op, iargs = m.desc
                    if not KINDS[kind].blocking(op, iargs):
                        mv = self.mover(t, m)
                        if mv == 'B':
                            internal, nph = True, ph
                        elif mv == 'L':
                            internal, nph = True, 'POST'
                        elif mv == 'N' and ph == 'PRE':
                            internal, nph = True, 'POST'
                if internal:
                    for c, ch in out_edges(m):
                        stack.append((ch, prims + [(m.desc, c, m.loc)], nph))
                else:
                    aut.edges.append(MEdge(si, aut.nid(m.id), prims))
                    if m.id not in seen:
                        seen.add(m.id)
                        todo.append(m)
        return aut

    # ---- bisimulation quotient (identical residual behaviour) --------------------------------
    def _minimize(self, aut):
        import sys
        sys.setrecursionlimit(200000)
        out = defaultdict(list)
        for e in aut.edges:
            out[e.src].append(e)
        memo = {}
        onstack = set()
        canon = {}

        def sig(n):
            if n in memo:
                return memo[n]
            if n in onstack:
                return ('cyc', n)
            if n == aut.frontier:
                r = ('F',)
            elif n in aut.terminal:
                st = aut.terminal[n]
                # FAIL terminals keep their message (distinct messages stay distinct nodes, so that reports are exact)
                r = ('T', 'FAIL', str(st[1])[:200]) if self.scn.is_fail(aut.name, st) else ('T', 'OK')
            else:
                onstack.add(n)
                items = []
                cyc = False
                for e in out[n]:
                    sd = sig(e.dst)
                    if sd and sd[0] == 'cyc':
                        cyc = True
                    items.append((tuple((d, c) for d, c, _ in e.prims), sd))
                onstack.discard(n)
                if cyc:
                    r = ('U', n)  # part of a cycle: keep as is
                else:
                    r = ('N', canon.setdefault(frozenset(items), len(canon)))
            memo[n] = r
            return r

        for n in list(aut.nodes.values()):
            sig(n)
        new = Automaton(aut.name)
        rep = {}
        for n, s_ in memo.items():
            rep.setdefault(s_, n)
        m = {n: new.nid(memo[n]) for n in sorted(memo)}
        new.init = m[aut.init]
        new.frontier = m.get(aut.frontier)
        if new.frontier is None:
            new.frontier = new.nid(('F',))
        seen = set()
        for e in aut.edges:
            key = (m[e.src], m[e.dst], tuple((d, c) for d, c, _ in e.prims))
            if key in seen:
                continue
            seen.add(key)
            new.edges.append(MEdge(m[e.src], m[e.dst], e.prims))
        for n, st in aut.terminal.items():
            new.terminal.setdefault(m[n], st)
        for n, inf in aut.info.items():
            new.info.setdefault(m[n], inf)
        return new

    # ---- actions -------------------------------------------------------------------------
    def _actions(self):
        self.actions = []  # (thread, prims-key, [edges])
        idx = {}
        for t in self.threads:
            for e in self.auts[t].edges:
                key = (t, tuple((d, c) for d, c, _ in e.prims))
                j = idx.get(key)
                if j is None:
                    j = len(self.actions)
                    idx[key] = j
                    self.actions.append((t, key[1], []))
                self.actions[j][2].append(e)
                e.act = j

    # ---- state ---------------------------------------------------------------------------
    def state_vars(self):
        vs = {}
        for name, (kind, cfg) in self.rt.objs.items():
            for v, (w, init) in KINDS[kind].vars(name, cfg, self.env).items():
                vs[v] = (w, init)
        vs.setdefault('$overflow', (1, 0))
        for t in self.threads:
            n = max(2, len(self.auts[t].nodes))
            vs[f'$pc.{t}'] = ((n - 1).bit_length(), self.auts[t].init)
        return vs

    def stats(self):
        return {
            'threads': len(self.threads),
            'tree_nodes': sum(len(self.ex.threads[t].tree.nodes) for t in self.threads),
            'stable_nodes': self.raw_nodes,
            'macro_edges': self.raw_edges,
            'min_nodes': sum(len(a.nodes) for a in self.auts.values()),
            'min_edges': sum(len(a.edges) for a in self.auts.values()),
            'actions': len(self.actions),
            'max_depth': {t: self.depth(t) for t in self.threads},
        }

    def depth(self, t):
        """Longest path (in macro edges) of thread t's automaton, ignoring back edges."""
        aut = self.auts[t]
        out = defaultdict(list)
        for e in aut.edges:
            out[e.src].append(e.dst)
        memo = {}
        onstack = set()

        def d(n):
            if n in memo:
                return memo[n]
            if n in onstack:
                self.cyclic = True
                return 0
            onstack.add(n)
            r = 0
            for m in out[n]:
                r = max(r, 1 + d(m))
            onstack.discard(n)
            memo[n] = r
            return r

        import sys
        sys.setrecursionlimit(100000)
        return d(aut.init)


def explorer_rt(ex):
    from . import rt as _r

    return _r.RT


# ---------------------------------------------------------------------------------------------
def node_label(aut, i):
    """Line-number free description of where a thread sits: 'Kind.op@outer>…>inner' """
    if i in aut.terminal:
        st = aut.terminal[i]
        return f'terminated:{st[0]}'
    inf = aut.info.get(i)
    if inf is None:
        return 'frontier' if i == aut.frontier else 'unknown'
    (obj, kind, op, iargs), loc = inf
    chain = loc[3] if loc and len(loc) > 3 else ()
    return f'{kind}.{op}@' + '>'.join(reversed(chain))


class Encoding:
    def __init__(self, prod: Product, scn, por=True, halt=False, exclude=()):
        self.exclude = list(exclude)
        self.p = prod
        self.scn = scn
        self.env = prod.env
        self.por = por
        self.halt = halt
        self.vars = prod.state_vars()
        self.names = sorted(self.vars)
        self.vidx = {n: i for i, n in enumerate(self.names)}
        self.A = len(prod.actions)
        self.SW = max(1, (self.A + 1).bit_length())
        self.IDLE = self.A
        self._build_step()

    def consts(self, suffix):
        return {n: z3.BitVec(f'{n}{suffix}', self.vars[n][0]) for n in self.names}

    def _build_step(self):
        p = self.p
        pre = self.consts('@pre')
        post = self.consts('@post')
        sel = z3.BitVec('sel@', self.SW)
        self.pre, self.post, self.sel = pre, post, sel
        MW = len(self.names)
        en = []
        upd = defaultdict(list)  # var -> [(j, expr)]
        rmask, wmask = [], []
        cons = []
        tidw = max(1, (len(p.threads) + 1).bit_length())
        self.tidw = tidw
        for j, (t, prims, edges) in enumerate(p.actions):
            S = SymState(pre, self.env)
            tid = self.env.tid[t]
            for (desc, case) in prims:
                obj, kind, op, iargs = desc
                if kind == 'Unknown':
                    continue
                cfg = p.rt.objs[obj][1]
                if isinstance(case, tuple) and case and case[0] == '$else':
                    # some case other than the executed ones is enabled: not blocked, and none of
                    # the executed cases' guards holds (cases of a primitive are mutually exclusive)
                    Kd = KINDS[kind]
                    cur = dict(S.v)
                    S.require(z3.Not(Kd.blocked(S, tid, obj, cfg, op, iargs)))
                    for c2 in case[1]:
                        S2 = SymState(cur, self.env)
                        Kd.sem(S2, tid, obj, cfg, op, iargs, c2)
                        S.reads |= S2.reads
                        S.require(z3.Not(z3.And(S2.guards)) if S2.guards else z3.BoolVal(False))
                    continue
                KINDS[kind].sem(S, tid, obj, cfg, op, iargs, case)
            pcv = f'$pc.{t}'
            pw = self.vars[pcv][0]
            srcs = sorted(set(e.src for e in edges))
            pcin = z3.Or([pre[pcv] == bv(s, pw) for s in srcs])
            g = z3.And([pcin] + S.guards) if S.guards else pcin
            en.append(g)
            nxt = None
            for e in edges:
                nxt = bv(e.dst, pw) if nxt is None else z3.If(pre[pcv] == bv(e.src, pw), bv(e.dst, pw), nxt)
            upd[pcv].append((j, nxt))
            for v in S.writes:
                upd[v].append((j, S.v[v]))
            rm = 0
            for v in S.reads:
                rm |= 1 << self.vidx[v]
            wm = 0
            for v in S.writes:
                wm |= 1 << self.vidx[v]
            rmask.append(rm)
            wmask.append(wm)
        self.en = en
        anyen = z3.Or(en) if en else z3.BoolVal(False)
        self.anyen = anyen
        for j in range(self.A):
            cons.append(z3.Implies(sel == j, en[j]))
        cons.append(z3.ULE(sel, bv(self.IDLE, self.SW)))
        idle = sel == bv(self.IDLE, self.SW)
        if self.halt:
            self.haltpre = z3.Bool('halt@pre')
            self.haltpost = z3.Bool('halt@post')
            cons.append(z3.Implies(self.haltpre, self.haltpost))
            cons.append(z3.Implies(idle, z3.Or(z3.Not(anyen), self.haltpost)))
            cons.append(z3.Implies(self.haltpost, idle))
        else:
            cons.append(z3.Implies(idle, z3.Not(anyen)))
        for n in self.names:
            e = pre[n]
            for j, x in upd.get(n, ()):
                e = z3.If(sel == j, x, e)
            cons.append(post[n] == e)
        self.trans = z3.And(cons)
        # POR lookup tables (functions of sel only)
        self.MW = MW
        tidt = bv(0, tidw)
        rmt = bv(0, MW)
        wmt = bv(0, MW)
        for j, (t, prims, edges) in enumerate(p.actions):
            tidt = z3.If(sel == j, bv(self.env.tid[t], tidw), tidt)
            rmt = z3.If(sel == j, bv(rmask[j], MW), rmt)
            wmt = z3.If(sel == j, bv(wmask[j], MW), wmt)
        self.tid_of_sel, self.rm_of_sel, self.wm_of_sel = tidt, rmt, wmt
        # bad-state predicate over `pre`
        done = []
        fails = []
        fails_all = []
        for t in p.threads:
            aut = p.auts[t]
            pcv = f'$pc.{t}'
            pw = self.vars[pcv][0]
            terms = [i for i in aut.terminal]
            dn = [pre[pcv] == bv(i, pw) for i in terms]
            stv = f'{t}.st'
            if stv in pre:
                dn.append(z3.And(pre[pcv] == bv(aut.init, pw), pre[stv] == 0))  # never started
            done.append(z3.Or(dn) if dn else z3.BoolVal(False))
            known_tags = [e_['tag'] for e_ in self.exclude if e_.get('kind') == 'fail']
            for i, st in aut.terminal.items():
                if self.scn.is_fail(t, st):
                    fails_all.append(pre[pcv] == bv(i, pw))
                    if any(str(st[1]).startswith(tg) for tg in known_tags):
                        continue
                    fails.append(pre[pcv] == bv(i, pw))
        fr = []
        for t in p.threads:
            aut = p.auts[t]
            pcv = f'$pc.{t}'
            fr.append(pre[pcv] == bv(aut.frontier, self.vars[pcv][0]))
        self.frontier = z3.Or(fr)
        self.alldone = z3.And(done)
        self.deadlock = z3.And(z3.Not(anyen), z3.Not(self.alldone), z3.Not(self.frontier))
        # known findings (signature = kind + where every listed thread sits) are excluded from the
        # violation disjunct, so that the solver's verdict reads "holds except for the listed ones"
        for ex_ in self.exclude:
            if ex_.get('kind') != 'deadlock':
                continue
            conj = []
            for t, lab in ex_['where'].items():
                if t not in p.auts:
                    conj.append(z3.BoolVal(False))
                    continue
                aut = p.auts[t]
                pcv = f'$pc.{t}'
                pw = self.vars[pcv][0]
                ids = [i for i in set(aut.nodes.values()) if node_label(aut, i) == lab]
                conj.append(z3.Or([pre[pcv] == bv(i, pw) for i in ids]) if ids else z3.BoolVal(False))
            self.deadlock = z3.And(self.deadlock, z3.Not(z3.And(conj)))
        self.fail = z3.Or(fails) if fails else z3.BoolVal(False)
        self.fail_all = z3.Or(fails_all) if fails_all else z3.BoolVal(False)
        self.overflow = pre['$overflow'] == 1
        inv = self.scn.invariant(self.env, SymState(pre, self.env)) if hasattr(self.scn, 'invariant') else None
        self.inv_broken = z3.Not(inv) if inv is not None else z3.BoolVal(False)

    def at(self, expr, k, k1=None):
        subs = []
        for n in self.names:
            subs.append((self.pre[n], self.S[k][n]))
            if k1 is not None:
                subs.append((self.post[n], self.S[k1][n]))
        if k1 is not None:
            subs.append((self.sel, self.sels[k]))
            if self.halt:
                subs.append((self.haltpre, self.halts[k]))
                subs.append((self.haltpost, self.halts[k1]))
        return z3.substitute(expr, subs)

    def unroll(self, K):
        self.K = K
        self.S = [self.consts(f'@{k}') for k in range(K + 1)]
        self.sels = [z3.BitVec(f'sel@{k}', self.SW) for k in range(K)]
        self.halts = [z3.Bool(f'halt@{k}') for k in range(K + 1)]
        f = []
        for n in self.names:
            f.append(self.S[0][n] == bv(self.vars[n][1], self.vars[n][0]))
        for nm, var in self.env.inputs.items():
            k = self.p.rt.inputs[nm]
            if k < (1 << var.size()):
                f.append(z3.ULT(var, bv(k, var.size())))
        if self.halt:
            f.append(z3.Not(self.halts[0]))
        for k in range(K):
            f.append(self.at(self.trans, k, k + 1))
        if self.por:
            tids = [z3.substitute(self.tid_of_sel, (self.sel, self.sels[k])) for k in range(K)]
            rms = [z3.substitute(self.rm_of_sel, (self.sel, self.sels[k])) for k in range(K)]
            wms = [z3.substitute(self.wm_of_sel, (self.sel, self.sels[k])) for k in range(K)]
            zero = bv(0, self.MW)
            for k in range(K - 1):
                dep = z3.Or((wms[k] & (rms[k + 1] | wms[k + 1])) != zero, (wms[k + 1] & rms[k]) != zero)
                both = z3.And(self.sels[k] != self.IDLE, self.sels[k + 1] != self.IDLE)
                f.append(z3.Implies(z3.And(both, z3.ULT(tids[k + 1], tids[k])), dep))
        self.base = f
        self.bad = []
        for k in range(K + 1):
            b = z3.Or(self.at(self.deadlock, k), self.at(self.fail, k), self.at(self.inv_broken, k))
            self.bad.append(b)
        self.front = [self.at(self.frontier, k) for k in range(K + 1)]
        self.front.append(self.ovf_at_K())
        self.ovf = self.at(self.overflow, K)
        self.running_at_K = self.at(self.anyen, K)
        return self

    def ovf_at_K(self):
        return self.at(self.overflow, self.K)

    # ---- queries ---------------------------------------------------------------------------
    def _solver(self, timeout_s):
        s = z3.SolverFor('QF_BV')
        s.set('timeout', int(timeout_s * 1000))
        for c in self.base:
            s.add(c)
        return s

    def query(self, what, timeout_s=600, extra=()):
        s = self._solver(timeout_s)
        if what == 'violation':
            s.add(z3.Or(self.bad + self.front))
        elif what == 'frontier':
            s.add(z3.Or(self.front))
        elif what == 'bound':  # some execution still running at step K, or a model bound exhausted
            s.add(z3.Or(self.running_at_K, self.ovf))
        elif what == 'witness':  # a complete run without violation
            s.add(self.at(self.alldone, self.K))
            s.add(z3.Not(z3.Or(self.bad + self.front)))
        for e in extra:
            s.add(e)
        t0 = time.time()
        r = s.check()
        dt = time.time() - t0
        m = s.model() if r == z3.sat else None
        return str(r), dt, m

    def schedule(self, m):
        """Model -> list of steps (thread, [prims])."""
        steps = []
        for k in range(self.K):
            j = m.eval(self.sels[k], model_completion=True).as_long()
            if j >= self.A:
                continue
            t, prims, edges = self.p.actions[j]
            pcv = f'$pc.{t}'
            src = m.eval(self.S[k][pcv], model_completion=True).as_long()
            locs = None
            for e in edges:
                if e.src == src:
                    locs = [l for _, _, l in e.prims]
            steps.append({'k': k, 'thread': t, 'prims': [(d, c) for d, c in prims], 'locs': locs})
        inputs = {n: m.eval(v, model_completion=True).as_long() for n, v in self.env.inputs.items()}
        return steps, inputs

    def final_state(self, m, k=None):
        k = self.K if k is None else k
        return {n: m.eval(self.S[k][n], model_completion=True).as_long() for n in self.names}

    def why(self, m):
        """Which violation disjunct holds, and at which step."""
        for k in range(self.K + 1):
            for nm, pred in (('frontier', self.frontier), ('fail', self.fail), ('invariant', self.inv_broken),
                             ('deadlock', self.deadlock)):
                if z3.is_true(m.eval(self.at(pred, k), model_completion=True)):
                    return nm, k
        if z3.is_true(m.eval(self.ovf_at_K(), model_completion=True)):
            return 'overflow', self.K
        return None, None
