"""Symbolic primitives: for every kind of concurrency primitive
  * cases()   – the cases of the symbolic result of an operation (what the executing thread can
                observe); used while executing the real code, one thread at a time;
  * realize() – the python value / exception of a case, handed to the code under test;
  * sem()     – guard and effect of (operation, case) over the shared symbolic state (z3 terms).
These are the *trusted stubs* of Engine B (contracts listed in DESIGN.md section 2.2).
"""
from __future__ import annotations

import queue as _rq
import concurrent.futures as _rcf

import z3

from .rt import Unsupported

TIDW = 4  # thread-id width (0 = nobody)
CNTW = 4  # counters / lengths


def bv(x, w):
    return z3.BitVecVal(x, w)


class ZA:
    """z3 back end of the primitive semantics."""

    sym = True

    @staticmethod
    def c(x, w):
        return z3.BitVecVal(x, w)

    @staticmethod
    def b(x):
        return z3.BoolVal(bool(x))

    eq = staticmethod(lambda a, b: a == b)
    ne = staticmethod(lambda a, b: a != b)
    ite = staticmethod(lambda c, a, b: z3.If(c, a, b))
    not_ = staticmethod(lambda a: z3.Not(a))
    ult = staticmethod(lambda a, b: z3.ULT(a, b))
    ule = staticmethod(lambda a, b: z3.ULE(a, b))
    uge = staticmethod(lambda a, b: z3.UGE(a, b))
    add = staticmethod(lambda a, b, w: a + b)
    sub = staticmethod(lambda a, b, w: a - b)
    iff = staticmethod(lambda a, b: a == b)
    zext = staticmethod(lambda a, n: z3.ZeroExt(n, a))

    @staticmethod
    def and_(*xs):
        xs = [x for x in (xs[0] if len(xs) == 1 and isinstance(xs[0], (list, tuple)) else xs)]
        return z3.And(xs) if xs else z3.BoolVal(True)

    @staticmethod
    def or_(*xs):
        xs = [x for x in (xs[0] if len(xs) == 1 and isinstance(xs[0], (list, tuple)) else xs)]
        return z3.Or(xs) if xs else z3.BoolVal(False)


class CA:
    """Concrete (python int) back end of the same semantics: used by the concolic pre-pass and by
    the replay checker, so there is one definition of every primitive."""

    sym = False

    @staticmethod
    def c(x, w):
        return x & ((1 << w) - 1)

    @staticmethod
    def b(x):
        return bool(x)

    eq = staticmethod(lambda a, b: a == b)
    ne = staticmethod(lambda a, b: a != b)
    ite = staticmethod(lambda c, a, b: a if c else b)
    not_ = staticmethod(lambda a: not a)
    ult = staticmethod(lambda a, b: a < b)
    ule = staticmethod(lambda a, b: a <= b)
    uge = staticmethod(lambda a, b: a >= b)
    add = staticmethod(lambda a, b, w: (a + b) & ((1 << w) - 1))
    sub = staticmethod(lambda a, b, w: (a - b) & ((1 << w) - 1))
    iff = staticmethod(lambda a, b: bool(a) == bool(b))
    zext = staticmethod(lambda a, n: a)

    @staticmethod
    def and_(*xs):
        xs = xs[0] if len(xs) == 1 and isinstance(xs[0], (list, tuple)) else xs
        return all(xs)

    @staticmethod
    def or_(*xs):
        xs = xs[0] if len(xs) == 1 and isinstance(xs[0], (list, tuple)) else xs
        return any(xs)


class SymState:
    """Mutable view of one symbolic global state; records reads, writes and guards."""

    def __init__(self, vars_, env, A=ZA):
        self.v = dict(vars_)
        self.env = env
        self.A = A
        self.reads = set()
        self.writes = set()
        self.guards = []

    def get(self, n):
        if n not in self.writes:
            self.reads.add(n)
        return self.v[n]

    def set(self, n, e):
        self.writes.add(n)
        self.v[n] = e

    def require(self, b):
        self.guards.append(b)

    def has(self, n):
        return n in self.v


class Kind:
    name = '?'

    def intern_args(self, rt, obj, op, args):
        return tuple(rt.vals.intern(a) for a in args)

    def note(self, rt, obj, op, iargs):
        pass

    def cases(self, rt, name, op, iargs):
        return ['ok']

    def realize(self, rt, obj, op, iargs, case, args):
        return None

    def vars(self, name, cfg, env):
        return {}

    def sem(self, S, tid, name, cfg, op, iargs, case):
        raise NotImplementedError

    def preserving(self, op, iargs, case):
        return False

    def blocking(self, op, iargs):
        return False

    def blocked(self, S, tid, name, cfg, op, iargs):
        """State predicate: no case of this (blocking) operation is enabled."""
        return S.A.b(False)


def _flag(args, i, default):
    return args[i] if len(args) > i else default


# ---------------------------------------------------------------------------------------------
class LockKind(Kind):
    """threading.Lock / RLock.  cfg: reentrant.
    acquire(blocking, has_timeout) ; release ; locked."""

    name = 'Lock'

    def intern_args(self, rt, obj, op, args):
        return tuple(args)

    def cases(self, rt, name, op, iargs):
        if op == 'acquire':
            blocking, has_to = iargs
            return ['ok'] if (blocking and not has_to) else ['ok', 'fail']
        if op == 'release':
            return ['ok', 'err']
        if op in ('locked', 'is_owned'):
            return [True, False]
        raise Unsupported(f'Lock.{op}')

    def realize(self, rt, obj, op, iargs, case, args):
        if op == 'acquire':
            return case == 'ok'
        if op == 'release':
            if case == 'err':
                raise RuntimeError('release unlocked lock')
            return None
        return case

    def vars(self, name, cfg, env):
        d = {name + '.owner': (TIDW, 0)}
        if cfg.get('reentrant'):
            d[name + '.count'] = (CNTW, 0)
        return d

    def sem(self, S, tid, name, cfg, op, iargs, case):
        A = S.A
        o, c = name + '.owner', name + '.count'
        re = cfg.get('reentrant', False)
        t = A.c(tid, TIDW)
        none = A.c(0, TIDW)
        own = S.get(o)
        if op == 'acquire':
            free = A.eq(own, none)
            if re:
                free = A.or_(free, A.eq(own, t))
            if case == 'ok':
                S.require(free)
                S.set(o, t)
                if re:
                    S.set(c, A.add(S.get(c), A.c(1, CNTW), CNTW))
            else:
                S.require(A.not_(free))
        elif op == 'release':
            if re:
                good = A.eq(own, t)
            else:
                good = A.ne(own, none)
            if case == 'ok':
                S.require(good)
                if re:
                    cnt = S.get(c)
                    S.set(c, A.sub(cnt, A.c(1, CNTW), CNTW))
                    S.set(o, A.ite(A.eq(cnt, A.c(1, CNTW)), none, own))
                else:
                    S.set(o, none)
            else:
                S.require(A.not_(good))
        elif op == 'locked':
            S.require(A.iff(A.ne(own, none), A.b(case)))
        elif op == 'is_owned':
            S.require(A.iff(A.eq(own, t), A.b(case)))

    def preserving(self, op, iargs, case):
        return op in ('locked', 'is_owned') or case in ('fail', 'err')

    def blocking(self, op, iargs):
        return op == 'acquire' and iargs[0] and not iargs[1]

    def blocked(self, S, tid, name, cfg, op, iargs):
        A = S.A
        if not self.blocking(op, iargs):
            return A.b(False)
        own = S.get(name + '.owner')
        held = A.ne(own, A.c(0, TIDW))
        if cfg.get('reentrant'):
            held = A.and_(held, A.ne(own, A.c(tid, TIDW)))
        return held


# ---------------------------------------------------------------------------------------------
class EventKind(Kind):
    name = 'Event'

    def intern_args(self, rt, obj, op, args):
        return tuple(args)

    def cases(self, rt, name, op, iargs):
        if op == 'is_set':
            return [False, True]
        if op in ('set', 'clear'):
            return ['ok']
        if op == 'wait':
            return [True, False] if iargs[0] else [True]
        raise Unsupported(f'Event.{op}')

    def realize(self, rt, obj, op, iargs, case, args):
        return None if op in ('set', 'clear') else case

    def vars(self, name, cfg, env):
        return {name + '.flag': (1, 0)}

    def sem(self, S, tid, name, cfg, op, iargs, case):
        A = S.A
        f = name + '.flag'
        if op == 'set':
            S.set(f, A.c(1, 1))
        elif op == 'clear':
            S.set(f, A.c(0, 1))
        else:
            S.require(A.eq(S.get(f), A.c(1 if case else 0, 1)))

    def preserving(self, op, iargs, case):
        return op in ('is_set', 'wait')

    def blocking(self, op, iargs):
        return op == 'wait' and not iargs[0]

    def blocked(self, S, tid, name, cfg, op, iargs):
        if not self.blocking(op, iargs):
            return S.A.b(False)
        return S.A.eq(S.get(name + '.flag'), S.A.c(0, 1))


# ---------------------------------------------------------------------------------------------
class SeqKind(Kind):
    """Bounded sequence of values: collections.deque, queue.Queue, queue.SimpleQueue and
    multiprocessing-style simple queues.  cfg: cap (model bound), maxsize (0 = unbounded),
    flavor in {'deque','queue'}."""

    name = 'Seq'

    def intern_args(self, rt, obj, op, args):
        if op in ('append', 'appendleft', 'remove', 'contains'):
            return (rt.vals.intern(args[0]),)
        if op == 'put':
            return (rt.vals.intern(args[0]), bool(args[1]), bool(args[2]))
        return tuple(args)

    def note(self, rt, obj, op, iargs):
        if op in ('append', 'appendleft', 'put'):
            rt.uni_add(obj._vname, iargs[0])

    def cases(self, rt, name, op, iargs):
        cfg = rt.objs[name][1]
        u = list(rt.uni(name))
        if op in ('append', 'appendleft', 'clear'):
            return ['ok']
        if op in ('popleft', 'pop', 'peek0'):
            return [('v', i) for i in u] + ['IndexError']
        if op == 'remove':
            return ['ok', 'ValueError']
        if op == 'contains':
            return [False, True]
        if op == 'len':
            return list(range(0, cfg['cap'] + 1))
        if op == 'bool':
            return [False, True]
        if op == 'put':
            _, block, has_to = iargs
            if cfg.get('maxsize', 0) <= 0:
                return ['ok']
            return ['ok'] if (block and not has_to) else ['ok', 'Full']
        if op == 'get':
            block, has_to = iargs
            vs = [('v', i) for i in u]
            return vs if (block and not has_to) else vs + ['Empty']
        if op in ('empty', 'full'):
            return [False, True]
        if op == 'qsize':
            return list(range(0, cfg['cap'] + 1))
        raise Unsupported(f'Seq.{op}')

    def realize(self, rt, obj, op, iargs, case, args):
        if isinstance(case, tuple) and case[0] == 'v':
            return rt.vals.rep[case[1]]
        if case == 'IndexError':
            raise IndexError('pop from an empty deque')
        if case == 'ValueError':
            raise ValueError('not in deque')
        if case == 'Full':
            raise _rq.Full
        if case == 'Empty':
            raise _rq.Empty
        if case == 'ok':
            return None
        return case

    def vars(self, name, cfg, env):
        d = {name + '.len': (CNTW, 0)}
        for i in range(cfg['cap']):
            d[f'{name}.i{i}'] = (env.VW, 0)
        d['$overflow'] = (1, 0)
        return d

    def sem(self, S, tid, name, cfg, op, iargs, case):
        A = S.A
        cap = cfg['cap']
        maxsize = cfg.get('maxsize', 0)
        VW = S.env.VW
        ln = name + '.len'
        n = S.get(ln)
        items = [f'{name}.i{i}' for i in range(cap)]
        C = lambda x: A.c(x, CNTW)  # noqa
        V = lambda x: A.c(x, VW)  # noqa
        one = C(1)

        def push_back(v):
            full = A.eq(n, C(cap))
            S.set('$overflow', A.ite(full, A.c(1, 1), S.get('$overflow')))
            for i in range(cap):
                S.set(items[i], A.ite(A.eq(n, C(i)), V(v), S.get(items[i])))
            S.set(ln, A.ite(full, n, A.add(n, one, CNTW)))

        def push_front(v):
            full = A.eq(n, C(cap))
            S.set('$overflow', A.ite(full, A.c(1, 1), S.get('$overflow')))
            old = [S.get(x) for x in items]
            S.set(items[0], V(v))
            for i in range(1, cap):
                S.set(items[i], old[i - 1])
            S.set(ln, A.ite(full, n, A.add(n, one, CNTW)))

        def pop_front():
            old = [S.get(x) for x in items]
            for i in range(cap - 1):
                S.set(items[i], old[i + 1])
            S.set(items[cap - 1], V(0))
            S.set(ln, A.sub(n, one, CNTW))

        def pop_back():
            for i in range(cap):
                S.set(items[i], A.ite(A.eq(n, C(i + 1)), V(0), S.get(items[i])))
            S.set(ln, A.sub(n, one, CNTW))

        if op == 'append':
            push_back(iargs[0])
        elif op == 'appendleft':
            push_front(iargs[0])
        elif op == 'clear':
            for x in items:
                S.set(x, V(0))
            S.set(ln, C(0))
        elif op in ('popleft', 'peek0'):
            if case == 'IndexError':
                S.require(A.eq(n, C(0)))
            else:
                S.require(A.ne(n, C(0)))
                S.require(A.eq(S.get(items[0]), V(case[1])))
                if op == 'popleft':
                    pop_front()
        elif op == 'pop':
            if case == 'IndexError':
                S.require(A.eq(n, C(0)))
            else:
                S.require(A.ne(n, C(0)))
                last = V(0)
                for i in range(cap):
                    last = A.ite(A.eq(n, C(i + 1)), S.get(items[i]), last)
                S.require(A.eq(last, V(case[1])))
                pop_back()
        elif op == 'contains':
            v = iargs[0]
            present = A.or_([A.and_(A.ult(C(i), n), A.eq(S.get(items[i]), V(v))) for i in range(cap)])
            S.require(A.iff(present, A.b(case)))
        elif op == 'remove':
            v = iargs[0]
            old = [S.get(x) for x in items]
            hit = [A.and_(A.ult(C(i), n), A.eq(old[i], V(v))) for i in range(cap)]
            anyhit = A.or_(hit)
            if case == 'ValueError':
                S.require(A.not_(anyhit))
            else:
                S.require(anyhit)
                before = [A.or_(hit[: i + 1]) for i in range(cap)]  # first hit index <= i
                for i in range(cap):
                    nxt = old[i + 1] if i + 1 < cap else V(0)
                    S.set(items[i], A.ite(before[i], nxt, old[i]))
                S.set(ln, A.sub(n, one, CNTW))
        elif op in ('len', 'qsize'):
            S.require(A.eq(n, C(case)))
        elif op == 'bool':
            S.require(A.iff(A.ne(n, C(0)), A.b(case)))
        elif op == 'empty':
            S.require(A.iff(A.eq(n, C(0)), A.b(case)))
        elif op == 'full':
            if maxsize <= 0:
                S.require(A.b(not case))
            else:
                S.require(A.iff(A.uge(n, C(maxsize)), A.b(case)))
        elif op == 'put':
            if maxsize > 0:
                isfull = A.uge(n, C(maxsize))
                if case == 'Full':
                    S.require(isfull)
                    return
                S.require(A.not_(isfull))
            push_back(iargs[0])
        elif op == 'get':
            if case == 'Empty':
                S.require(A.eq(n, C(0)))
            else:
                S.require(A.ne(n, C(0)))
                S.require(A.eq(S.get(items[0]), V(case[1])))
                pop_front()
        else:
            raise Unsupported(f'Seq.{op}')

    def preserving(self, op, iargs, case):
        return op in ('len', 'bool', 'empty', 'full', 'qsize', 'peek0', 'contains') or case in (
            'IndexError', 'ValueError', 'Full', 'Empty')

    def blocking(self, op, iargs):
        if op == 'put':
            return iargs[1] and not iargs[2]  # may block when bounded
        if op == 'get':
            return iargs[0] and not iargs[1]
        return False

    def blocked(self, S, tid, name, cfg, op, iargs):
        A = S.A
        if not self.blocking(op, iargs):
            return A.b(False)
        n = S.get(name + '.len')
        if op == 'get':
            return A.eq(n, A.c(0, CNTW))
        maxsize = cfg.get('maxsize', 0)
        if maxsize <= 0:
            return A.b(False)
        return A.uge(n, A.c(maxsize, CNTW))


# ---------------------------------------------------------------------------------------------
F_PENDING, F_RUNNING, F_CANCELLED, F_OK, F_EXC = 0, 1, 2, 3, 4


class FutureKind(Kind):
    """concurrent.futures.Future (contract): PENDING/RUNNING/CANCELLED/FINISHED; cancel() succeeds
    only while PENDING (or already cancelled); set_result/set_exception on a CANCELLED or FINISHED
    future raise InvalidStateError; result(timeout) may raise TimeoutError while not done."""

    name = 'Future'

    def intern_args(self, rt, obj, op, args):
        if op in ('set_result', 'set_exception'):
            return (rt.vals.intern(args[0]),)
        return tuple(args)

    def note(self, rt, obj, op, iargs):
        if op == 'set_result':
            rt.uni_add(obj._vname, iargs[0], 'ok')
        elif op == 'set_exception':
            rt.uni_add(obj._vname, iargs[0], 'exc')

    def cases(self, rt, name, op, iargs):
        n = name
        if op in ('result', 'exception'):
            has_to = iargs[0]
            cs = [('ok', i) for i in rt.uni(n, 'ok')] + [('exc', i) for i in rt.uni(n, 'exc')]
            cs.append('cancelled')
            if has_to:
                cs.append('timeout')
            return cs
        if op in ('set_result', 'set_exception'):
            return ['ok', 'invalid']
        if op in ('cancel', 'cancelled', 'done', 'running', 'set_running_or_notify_cancel'):
            return [False, True]
        raise Unsupported(f'Future.{op}')

    def realize(self, rt, obj, op, iargs, case, args):
        if op in ('result', 'exception'):
            if case == 'cancelled':
                raise _rcf.CancelledError()
            if case == 'timeout':
                raise _rcf.TimeoutError()
            tag, vid = case
            v = rt.vals.rep[vid]
            if op == 'result':
                if tag == 'ok':
                    return v
                raise v
            return None if tag == 'ok' else v
        if op in ('set_result', 'set_exception'):
            if case == 'invalid':
                raise _rcf.InvalidStateError(f'{obj._vname}: invalid state')
            return None
        return case

    def vars(self, name, cfg, env):
        return {name + '.st': (3, cfg.get('init_state', F_PENDING)), name + '.val': (env.VW, 0)}

    def sem(self, S, tid, name, cfg, op, iargs, case):
        A = S.A
        st, val = name + '.st', name + '.val'
        s = S.get(st)
        VW = S.env.VW
        F = lambda x: A.c(x, 3)  # noqa
        live = A.ule(s, F(F_RUNNING))
        if op in ('result', 'exception'):
            if case == 'cancelled':
                S.require(A.eq(s, F(F_CANCELLED)))
            elif case == 'timeout':
                S.require(live)
            else:
                tag, vid = case
                S.require(A.eq(s, F(F_OK if tag == 'ok' else F_EXC)))
                S.require(A.eq(S.get(val), A.c(vid, VW)))
        elif op in ('set_result', 'set_exception'):
            if case == 'ok':
                S.require(live)
                S.set(st, F(F_OK if op == 'set_result' else F_EXC))
                S.set(val, A.c(iargs[0], VW))
            else:
                S.require(A.not_(live))
        elif op == 'cancel':
            can = A.or_(A.eq(s, F(F_PENDING)), A.eq(s, F(F_CANCELLED)))
            if case:
                S.require(can)
                S.set(st, F(F_CANCELLED))
            else:
                S.require(A.not_(can))
        elif op == 'cancelled':
            S.require(A.iff(A.eq(s, F(F_CANCELLED)), A.b(case)))
        elif op == 'done':
            S.require(A.iff(A.uge(s, F(F_CANCELLED)), A.b(case)))
        elif op == 'running':
            S.require(A.iff(A.eq(s, F(F_RUNNING)), A.b(case)))
        elif op == 'set_running_or_notify_cancel':
            if case:
                S.require(A.eq(s, F(F_PENDING)))
                S.set(st, F(F_RUNNING))
            else:
                S.require(A.eq(s, F(F_CANCELLED)))

    def preserving(self, op, iargs, case):
        if op in ('result', 'exception', 'cancelled', 'done', 'running'):
            return True
        return case in ('invalid',) or (op == 'cancel' and case is False)

    def blocking(self, op, iargs):
        if op in ('result', 'exception'):
            return not iargs[0]
        if op == 'set_running_or_notify_cancel':
            return True  # (never called on a done future by the pool stub)
        return False

    def blocked(self, S, tid, name, cfg, op, iargs):
        A = S.A
        if not self.blocking(op, iargs):
            return A.b(False)
        s = S.get(name + '.st')
        if op == 'set_running_or_notify_cancel':
            return A.not_(A.or_(A.eq(s, A.c(F_PENDING, 3)), A.eq(s, A.c(F_CANCELLED, 3))))
        return A.ule(s, A.c(F_RUNNING, 3))


# ---------------------------------------------------------------------------------------------
T_NEW, T_STARTED, T_DONE = 0, 1, 2


class ThreadKind(Kind):
    """A thread of control: start / begin (first step of the thread itself) / exit / join / is_alive."""

    name = 'Thread'

    def intern_args(self, rt, obj, op, args):
        return tuple(args)

    def cases(self, rt, name, op, iargs):
        if op == 'join':
            return ['ok', 'timeout'] if iargs[0] else ['ok']
        if op in ('is_alive', 'started'):
            return [False, True]
        return ['ok']

    def realize(self, rt, obj, op, iargs, case, args):
        if op in ('is_alive', 'started'):
            return case
        return None

    def vars(self, name, cfg, env):
        return {name + '.st': (2, cfg.get('init', T_NEW))}

    def sem(self, S, tid, name, cfg, op, iargs, case):
        A = S.A
        st = name + '.st'
        s = S.get(st)
        T = lambda x: A.c(x, 2)  # noqa
        if op == 'start':
            S.require(A.eq(s, T(T_NEW)))
            S.set(st, T(T_STARTED))
        elif op == 'begin':
            S.require(A.eq(s, T(T_STARTED)))
        elif op == 'exit':
            S.set(st, T(T_DONE))
        elif op == 'join':
            if case == 'ok':
                S.require(A.eq(s, T(T_DONE)))
            else:
                S.require(A.ne(s, T(T_DONE)))
        elif op == 'is_alive':
            S.require(A.iff(A.eq(s, T(T_STARTED)), A.b(case)))
        elif op == 'started':
            S.require(A.iff(A.ne(s, T(T_NEW)), A.b(case)))

    def preserving(self, op, iargs, case):
        return op in ('is_alive', 'started', 'begin', 'join')

    def blocking(self, op, iargs):
        return op == 'begin' or (op == 'join' and not iargs[0])

    def blocked(self, S, tid, name, cfg, op, iargs):
        A = S.A
        if not self.blocking(op, iargs):
            return A.b(False)
        s = S.get(name + '.st')
        if op == 'begin':
            return A.ne(s, A.c(T_STARTED, 2))
        return A.ne(s, A.c(T_DONE, 2))


# ---------------------------------------------------------------------------------------------
class PoolKind(Kind):
    """Executor contract: submit appends a job; each of max_workers worker threads repeatedly takes
    the oldest job; shutdown sets a flag, workers exit when the flag is set and no job is left."""

    name = 'Pool'

    def intern_args(self, rt, obj, op, args):
        if op == 'submit':
            return (rt.vals.intern(args[0]),)
        return tuple(args)

    def note(self, rt, obj, op, iargs):
        if op == 'submit':
            rt.uni_add(obj._vname, iargs[0])

    def cases(self, rt, name, op, iargs):
        if op == 'submit':
            return ['ok', 'shutdown']
        if op == 'take':
            return [('v', i) for i in rt.uni(name)] + ['exit']
        if op == 'shutdown':
            return ['ok']
        raise Unsupported(f'Pool.{op}')

    def realize(self, rt, obj, op, iargs, case, args):
        if op == 'take':
            return None if case == 'exit' else rt.vals.rep[case[1]]
        if op == 'submit' and case == 'shutdown':
            raise RuntimeError('cannot schedule new futures after shutdown')
        return None

    def vars(self, name, cfg, env):
        d = {name + '.len': (CNTW, 0), name + '.down': (1, 0), '$overflow': (1, 0)}
        for i in range(cfg['cap']):
            d[f'{name}.i{i}'] = (env.VW, 0)
        return d

    def sem(self, S, tid, name, cfg, op, iargs, case):
        A = S.A
        cap = cfg['cap']
        VW = S.env.VW
        ln = name + '.len'
        n = S.get(ln)
        items = [f'{name}.i{i}' for i in range(cap)]
        C = lambda x: A.c(x, CNTW)  # noqa
        down = S.get(name + '.down')
        if op == 'submit':
            if case == 'shutdown':
                S.require(A.eq(down, A.c(1, 1)))
                return
            S.require(A.eq(down, A.c(0, 1)))
            full = A.eq(n, C(cap))
            S.set('$overflow', A.ite(full, A.c(1, 1), S.get('$overflow')))
            for i in range(cap):
                S.set(items[i], A.ite(A.eq(n, C(i)), A.c(iargs[0], VW), S.get(items[i])))
            S.set(ln, A.ite(full, n, A.add(n, C(1), CNTW)))
        elif op == 'take':
            if case == 'exit':
                S.require(A.eq(n, C(0)))
                S.require(A.eq(down, A.c(1, 1)))
            else:
                S.require(A.ne(n, C(0)))
                S.require(A.eq(S.get(items[0]), A.c(case[1], VW)))
                old = [S.get(x) for x in items]
                for i in range(cap - 1):
                    S.set(items[i], old[i + 1])
                S.set(items[cap - 1], A.c(0, VW))
                S.set(ln, A.sub(n, C(1), CNTW))
        elif op == 'shutdown':
            S.set(name + '.down', A.c(1, 1))

    def preserving(self, op, iargs, case):
        return case == 'shutdown'

    def blocking(self, op, iargs):
        return op == 'take'

    def blocked(self, S, tid, name, cfg, op, iargs):
        A = S.A
        if op != 'take':
            return A.b(False)
        return A.and_(A.eq(S.get(name + '.len'), A.c(0, CNTW)), A.eq(S.get(name + '.down'), A.c(0, 1)))


# ---------------------------------------------------------------------------------------------
class DictKind(Kind):
    """A shared dict with atomic single operations (GIL contract for builtin dict methods).
    State: per key of the key universe a presence bit and a value."""

    name = 'Dict'

    def intern_args(self, rt, obj, op, args):
        return tuple(rt.vals.intern(a) for a in args)

    def note(self, rt, obj, op, iargs):
        if op == 'setitem':
            rt.uni_add(obj._vname, iargs[0], 'k')
            rt.uni_add(obj._vname, iargs[1], 'v')

    def cases(self, rt, name, op, iargs):
        n = name
        vs = [('v', i) for i in rt.uni(n, 'v')]
        if op == 'setitem':
            return ['ok']
        if op in ('getitem', 'pop'):
            return vs + ['KeyError']
        if op in ('get', 'popd'):
            return vs + ['default']
        if op == 'contains':
            return [False, True]
        if op == 'len':
            return list(range(0, len(rt.uni(n, 'k')) + 1))
        if op == 'delitem':
            return ['ok', 'KeyError']
        raise Unsupported(f'Dict.{op}')

    def realize(self, rt, obj, op, iargs, case, args):
        if isinstance(case, tuple):
            return rt.vals.rep[case[1]]
        if case == 'KeyError':
            raise KeyError(args[0])
        if case == 'default':
            return args[1] if len(args) > 1 else None
        if case == 'ok':
            return None
        return case

    def vars(self, name, cfg, env):
        d = {}
        for k in env.uni(name, 'k'):
            d[f'{name}.p{k}'] = (1, 0)
            d[f'{name}.v{k}'] = (env.VW, 0)
        return d

    def sem(self, S, tid, name, cfg, op, iargs, case):
        A = S.A
        VW = S.env.VW
        keys = S.env.uni(name, 'k')
        one, zero = A.c(1, 1), A.c(0, 1)
        if op == 'len':
            tot = A.c(0, CNTW)
            for k in keys:
                tot = A.add(tot, A.zext(S.get(f'{name}.p{k}'), CNTW - 1), CNTW)
            S.require(A.eq(tot, A.c(case, CNTW)))
            return
        k = iargs[0]
        known = k in keys and S.has(f'{name}.p{k}')
        p, v = f'{name}.p{k}', f'{name}.v{k}'
        if op == 'setitem':
            S.set(p, one)
            S.set(v, A.c(iargs[1], VW))
        elif op in ('getitem', 'pop', 'get', 'popd'):
            if isinstance(case, tuple):
                if not known:
                    S.require(A.b(False))
                    return
                S.require(A.eq(S.get(p), one))
                S.require(A.eq(S.get(v), A.c(case[1], VW)))
                if op in ('pop', 'popd'):
                    S.set(p, zero)
                    S.set(v, A.c(0, VW))
            else:
                if known:
                    S.require(A.eq(S.get(p), zero))
        elif op == 'contains':
            if known:
                S.require(A.iff(A.eq(S.get(p), one), A.b(case)))
            else:
                S.require(A.b(not case))
        elif op == 'delitem':
            if case == 'ok':
                if not known:
                    S.require(A.b(False))
                    return
                S.require(A.eq(S.get(p), one))
                S.set(p, zero)
                S.set(v, A.c(0, VW))
            elif known:
                S.require(A.eq(S.get(p), zero))

    def preserving(self, op, iargs, case):
        return op in ('getitem', 'get', 'contains', 'len') or case in ('KeyError', 'default')


# ---------------------------------------------------------------------------------------------
class CellKind(Kind):
    """A shared mutable attribute / variable with atomic read and write."""

    name = 'Cell'

    def intern_args(self, rt, obj, op, args):
        return tuple(rt.vals.intern(a) for a in args)

    def note(self, rt, obj, op, iargs):
        if op == 'set':
            rt.uni_add(obj._vname, iargs[0])

    def cases(self, rt, name, op, iargs):
        if op == 'set':
            return ['ok']
        if op == 'get':
            return [('v', i) for i in rt.uni(name)]
        raise Unsupported(f'Cell.{op}')

    def realize(self, rt, obj, op, iargs, case, args):
        if op == 'get':
            return rt.vals.rep[case[1]]
        return None

    def vars(self, name, cfg, env):
        return {name + '.val': (env.VW, cfg.get('init', 0))}

    def sem(self, S, tid, name, cfg, op, iargs, case):
        A = S.A
        if op == 'set':
            S.set(name + '.val', A.c(iargs[0], S.env.VW))
        else:
            S.require(A.eq(S.get(name + '.val'), A.c(case[1], S.env.VW)))

    def preserving(self, op, iargs, case):
        return op == 'get'


# ---------------------------------------------------------------------------------------------
class InputKind(Kind):
    """A symbolic input / environment choice, fixed for the whole execution: choose(name, n)."""

    name = 'Input'

    def intern_args(self, rt, obj, op, args):
        return tuple(args)

    def note(self, rt, obj, op, iargs):
        if op == 'choose':
            rt.inputs[iargs[0]] = max(rt.inputs.get(iargs[0], 0), iargs[1])

    def cases(self, rt, name, op, iargs):
        return list(range(iargs[1]))

    def realize(self, rt, obj, op, iargs, case, args):
        return case

    def vars(self, name, cfg, env):
        return {}

    def sem(self, S, tid, name, cfg, op, iargs, case):
        if op == 'choose':
            v = S.env.input_var(iargs[0])
            S.require(S.A.eq(v, S.A.c(case, S.env.input_width(iargs[0]))))

    def preserving(self, op, iargs, case):
        return True


# ---------------------------------------------------------------------------------------------
class CounterKind(Kind):
    """Observer counters (pulled / handed / running …): inc, dec."""

    name = 'Counter'
    W = 6

    def intern_args(self, rt, obj, op, args):
        return tuple(args)

    def vars(self, name, cfg, env):
        return {name + '.n': (self.W, 0)}

    def sem(self, S, tid, name, cfg, op, iargs, case):
        A = S.A
        n = name + '.n'
        if op == 'inc':
            S.set(n, A.add(S.get(n), A.c(1, self.W), self.W))
        elif op == 'dec':
            S.set(n, A.sub(S.get(n), A.c(1, self.W), self.W))


KINDS = {
    k.name: k()
    for k in (LockKind, EventKind, SeqKind, FutureKind, ThreadKind, PoolKind, DictKind, CellKind,
              InputKind, CounterKind)
}
