"""One Engine-B job = one scenario configuration: analyze, replay, classify.  Runs in its own
process (`python -m engine_b.job '<json spec>'`) and prints one JSON line `RESULT {...}`."""
from __future__ import annotations

import ast
import hashlib
import importlib
import json
import os
import sys
import time

from . import rt as _rtmod
from .replay import replay
from .scenario import analyze, show_cex

REPLAY_DIR = os.environ.get('VERIF_REPLAY_DIR', '/verif/replays')


def make_scn(spec):
    mod, cls = spec['scenario'].split(':')
    return getattr(importlib.import_module(mod), cls)(**spec.get('params', {}))


def ser_steps(steps):
    return [[s['thread'], repr([(d, c) for d, c in s['prims']])] for s in steps]


def de_steps(ser):
    return [(t, ast.literal_eval(p)) for t, p in ser]


def matches(entry, sig, spec):
    if entry.get('kind') != sig.get('kind'):
        return False
    if entry.get('scenario') and entry['scenario'] != spec['scenario']:
        return False
    for k, v in entry.get('params', {}).items():
        if spec.get('params', {}).get(k) != v:
            return False
    if sig['kind'] == 'fail' and entry.get('tag') != sig.get('tag'):
        return False
    if 'where' in entry and entry['where'] != sig.get('where'):
        return False
    return True


def write_replay(spec, cex, rep):
    os.makedirs(REPLAY_DIR, exist_ok=True)
    body = {
        'property': spec.get('property'), 'engine': 'B', 'scenario': spec['scenario'],
        'params': spec.get('params', {}), 'kind': cex['kind'], 'inputs': cex['inputs'],
        'steps': ser_steps(cex['steps']), 'where': cex['where'], 'signature': cex['signature'],
        'value_keys': repr(_rtmod.RT.vals.keys), 'observed': rep.get('observed'),
    }
    h = hashlib.sha1(json.dumps(body, sort_keys=True).encode()).hexdigest()[:10]
    path = os.path.join(REPLAY_DIR, f"{spec.get('property', 'X')}-{h}.json")
    with open(path, 'w') as f:
        json.dump(body, f, indent=1)
    return path


def run_job(spec, verbose=False):
    scn = make_scn(spec)
    known = spec.get('known', [])
    out = {'spec': {k: v for k, v in spec.items() if k != 'known'}, 'known_hits': [], 'replays': 0,
           'replays_ok': 0}
    state = {'bad_replay': None}

    def on_violation(cex):
        rep = replay(scn, [(s['thread'], s['prims']) for s in cex['steps']], cex['inputs'], cex['kind'])
        if rep['reproduced'] and hasattr(scn, 'real_replay'):
            # scenarios on the asyncio model: the schedule replay above ran on threads that emulate the loop;
            # the violation must also show on the REAL event loop with the counterexample's inputs
            rep2 = scn.real_replay(cex['inputs'], [(s['thread'], s['prims']) for s in cex['steps']])
            rep = dict(rep2, model_thread_replay=rep['observed'], ops_replayed=rep.get('ops_replayed'),
                       ops_scheduled=rep.get('ops_scheduled'))
        out['replays'] += 1
        cex['replay'] = rep
        if not rep['reproduced']:
            state['bad_replay'] = rep
            return None
        out['replays_ok'] += 1
        for e in known:
            if matches(e, cex['signature'], spec):
                out['known_hits'].append({'id': e.get('id'), 'what': e.get('what'), 'signature': cex['signature'],
                                          'inputs': cex['inputs'], 'observed': rep['observed']})
                return dict(e, **{'kind': cex['kind']})
        return None

    t0 = time.time()
    res = analyze(scn, on_violation=on_violation, verbose=verbose, **spec.get('analyze', {}))
    out['verdict'] = res['verdict']
    out['reason'] = res.get('reason')
    for k in ('queries', 'explore', 'product', 'K', 'solver_s', 'functions', 'iterations', 'K_is_structural_bound'):
        out[k] = res.get(k)
    out['scenario'] = res['scenario']
    if res['verdict'] == 'violation':
        cex = res['cex']
        rep = cex.get('replay') or {}
        if verbose:
            show_cex(res)
        if rep.get('reproduced'):
            out['replay_file'] = write_replay(spec, cex, rep)
            out['cex'] = {'kind': cex['kind'], 'inputs': cex['inputs'], 'where': cex['where'],
                          'signature': cex['signature'], 'observed': rep['observed'],
                          'schedule_len': len(cex['steps'])}
        else:
            out['verdict'] = 'inconclusive'
            out['reason'] = f"solver counterexample did not reproduce on the real code: {rep}"
            out['cex'] = {'kind': cex['kind'], 'inputs': cex['inputs'], 'where': cex['where']}
    elif res['verdict'] == 'holds':
        w = res.get('witness')
        if w:
            rep = replay(scn, [(s['thread'], s['prims']) for s in w['steps']], w['inputs'], 'witness')
            out['replays'] += 1
            out['witness_replay'] = rep
            if rep['reproduced']:
                out['replays_ok'] += 1
                out['witness_sample'] = {'inputs': w['inputs'], 'schedule': [
                    f"{s['thread']}: " + ' ; '.join(f'{d[0]}.{d[2]}' for d, c in s['prims'][:3]) for s in w['steps'][:12]]}
            else:
                out['verdict'] = 'inconclusive'
                out['reason'] = f'witness run did not replay on the real code (stub or translation wrong): {rep}'
    out['wall_s'] = round(time.time() - t0, 2)
    return out


def replay_file(path):
    body = json.load(open(path))
    spec = {'scenario': body['scenario'], 'params': body['params']}
    scn = make_scn(spec)
    rt = _rtmod.reset_runtime()
    for k in ast.literal_eval(body['value_keys']):
        if k not in rt.vals.key2id:
            rt.vals.key2id[k] = len(rt.vals.rep)
            rt.vals.rep.append(None)
            rt.vals.keys.append(k)
    rt.scn_files = (sys.modules[type(scn).__module__].__file__,)
    rep = replay(scn, de_steps(body['steps']), body['inputs'], body['kind'])
    if rep['reproduced'] and hasattr(scn, 'real_replay'):
        # scenarios whose model threads stand for something else (asyncio tasks, processes): the real thing decides
        rep2 = scn.real_replay(body['inputs'], de_steps(body['steps']))
        rep = dict(rep2, model_thread_replay=rep['observed'])
    return body, rep


if __name__ == '__main__':
    spec = json.loads(sys.argv[1])
    try:
        r = run_job(spec, verbose=bool(os.environ.get('VERIF_VERBOSE')))
    except Exception as e:  # noqa
        import traceback

        r = {'spec': {k: v for k, v in spec.items() if k != 'known'}, 'verdict': 'inconclusive',
             'reason': f'job crashed: {type(e).__name__}: {e}', 'trace': traceback.format_exc()[-1500:]}
    print('RESULT ' + json.dumps(r, default=str))
    sys.stdout.flush()
    os._exit(0)
