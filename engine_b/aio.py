"""A model of the asyncio event loop for Engine B.

Every asyncio Task is a thread of the model; the event loop is ONE mutex (the *loop token*): a task
holds it whenever it runs and gives it up only where a real task would suspend — at an `await`
that cannot complete at once (empty/full queue, unset event, pending future/task) and at
`sleep()`.  Everything a task does between two suspension points is therefore atomic with respect to
the other tasks of the loop, exactly as in asyncio, and because every access to loop-local state
holds the token, Lipton fusion collapses those stretches into single steps.  Which ready task runs
next is the scheduler's (the solver's) choice, an over-approximation of asyncio's FIFO ready queue.

Awaitables never really suspend the Python coroutine: the blocking is in the primitive operation
(a guard in the model), so a coroutine is driven to completion with one `send(None)`.
Cancellation is delivered at the suspension points of the cancelled task (a task blocked inside a
queue/future wait is not interrupted — stated limitation).
"""
from __future__ import annotations

import asyncio as _real_asyncio
import queue as _q
import types

from .rt import Abort
from .stubs import SCell, SEvent, SFuture, SLock, SQueue, SThread, _rt

CancelledError = _real_asyncio.CancelledError
TimeoutError = _real_asyncio.TimeoutError
InvalidStateError = _real_asyncio.InvalidStateError
QueueEmpty = _real_asyncio.QueueEmpty
QueueFull = _real_asyncio.QueueFull


class _LoopState:
    def __init__(self):
        self.token = None  # SLock
        self.current = {}  # thread ctx name -> ATask


def _ls():
    rt = _rt()
    ls = getattr(rt, '_aio', None)
    if ls is None or ls.get('run') != id(rt):
        ls = rt._aio = {'run': id(rt)}
    return ls


def loop_token():
    """The loop token of the current run (created by the first task = the driver)."""
    rt = _rt()
    ctx = rt.current_ctx()
    tok = ctx.extra.get('aio_token')
    if tok is None:
        raise RuntimeError('no running event loop')
    return tok


def drive(coro):
    """Run a coroutine whose awaits never really suspend."""
    try:
        coro.send(None)
    except StopIteration as s:
        return s.value
    raise RuntimeError('coroutine suspended for real: an awaitable outside the asyncio model was awaited')


def run(coro):
    """asyncio.run for the driver thread: create the loop token, hold it, drive the coroutine."""
    ctx = _rt().current_ctx()
    tok = SLock()
    ctx.extra['aio_token'] = tok
    ctx.extra['aio_task'] = None
    tok.acquire()
    result = None
    try:
        result = drive(coro)  # kept in a local: a value in flight on the hidden stack is invisible to fingerprints
    finally:
        tok.release()
    return result


def _timed():
    """True inside wait_for(..., timeout): a wait that cannot complete may end with TimeoutError instead."""
    return bool(_rt().current_ctx().extra.get('aio_timeout'))


async def wait_for(aw, timeout):
    """asyncio.wait_for for awaitables of this model: the blocking primitive reached inside `aw` becomes a timed wait (it
    may time out whenever it cannot complete — time is abstract).  A timed-out queue get / stream read consumes nothing,
    as cancelling the real operation does.  (Awaiting a Task with a timeout would also have to cancel it: not modelled.)"""
    if timeout is None:
        return await aw
    ctx = _rt().current_ctx()
    prev = ctx.extra.get('aio_timeout')
    ctx.extra['aio_timeout'] = True
    try:
        return await aw
    finally:
        ctx.extra['aio_timeout'] = prev


def _suspend_begin():
    loop_token().release()


def _suspend_end():
    loop_token().acquire()
    t = _rt().current_ctx().extra.get('aio_task')
    if t is not None and t._cancel_req.get():
        t._cancel_req.set(False)
        raise CancelledError()


async def sleep(delay=0, result=None):
    _suspend_begin()
    _suspend_end()
    return result


class AEvent:
    def __init__(self):
        self._e = SEvent()

    def is_set(self):
        return self._e.is_set()

    def set(self):
        self._e.set()

    def clear(self):
        self._e.clear()

    async def wait(self):
        if self._e.is_set():
            return True
        _suspend_begin()
        self._e.wait()
        _suspend_end()
        return True


class AQueue:
    def __init__(self, maxsize=0):
        self._q = SQueue(maxsize)
        self.maxsize = maxsize

    async def get(self):
        try:
            return self._q.get(False)
        except _q.Empty:
            pass
        _suspend_begin()
        if _timed():
            try:
                v = self._q.get(True, 1)
            except _q.Empty:
                _suspend_end()
                raise TimeoutError() from None
        else:
            v = self._q.get(True)
        _suspend_end()
        return v

    async def put(self, x):
        try:
            return self._q.put(x, False)
        except _q.Full:
            pass
        _suspend_begin()
        self._q.put(x, True)
        _suspend_end()

    def get_nowait(self):
        try:
            return self._q.get(False)
        except _q.Empty:
            raise QueueEmpty

    def put_nowait(self, x):
        try:
            return self._q.put(x, False)
        except _q.Full:
            raise QueueFull

    def empty(self):
        return self._q.empty()

    def full(self):
        return self._q.full()

    def qsize(self):
        return self._q.qsize()

    def task_done(self):
        pass


class AFuture:
    """asyncio.Future over the Future contract of sem.py."""

    def __init__(self, *, loop=None, _name=None):
        self._f = SFuture(name=_name)
        self._vname = self._f._vname + '.a'

    def __eq__(self, o):
        return getattr(o, '_vname', None) == self._vname

    def __hash__(self):
        return hash(self._vname)

    def set_result(self, v):
        return self._f.set_result(v)

    def set_exception(self, e):
        return self._f.set_exception(e)

    def done(self):
        return self._f.done()

    def cancelled(self):
        return self._f.cancelled()

    def cancel(self, msg=None):
        return self._f.cancel()

    def result(self):
        if not self._f.done():
            raise InvalidStateError('Result is not ready.')
        return self._f.result()

    def exception(self):
        if not self._f.done():
            raise InvalidStateError('Exception is not set.')
        return self._f.exception()

    def _wait(self):
        if self._f.done():
            return self._f.result()
        _suspend_begin()
        try:
            if _timed() and not isinstance(self, ATask):
                return self._f.result(1)   # may raise TimeoutError
            return self._f.result()
        finally:
            _suspend_end()

    def __await__(self):
        if False:
            yield
        return self._wait()

    __iter__ = __await__


class ATask(AFuture):
    """asyncio.Task: a model thread that holds the loop token while it runs the coroutine."""

    def __init__(self, coro, name=None):
        # everything a task owns is named after its thread, so that a task handed to another
        # thread denotes the same symbolic objects whatever path created it
        try:
            import hashlib
            fr = getattr(coro, 'cr_frame', None)
            loc = dict(fr.f_locals) if fr is not None else {}
            key = _rt().vals.key({k: v for k, v in loc.items() if isinstance(v, (int, str, tuple, bool, type(None)))})
            disc = hashlib.sha1(repr((getattr(coro, '__qualname__', ''), key)).encode()).hexdigest()[:6]
        except Exception:
            disc = ''

        class _T(SThread):
            _disc = disc

        self._th = _T(target=self._body, name=name or 'task')
        super().__init__(_name=self._th._vname + '.fut')
        self._coro = coro
        self._cancel_req = SCell(False, name=self._th._vname + '.cancel')
        self._token = loop_token()
        self._vname = self._th._vname + '.task'
        self._th.start()

    def _body(self):
        ctx = _rt().current_ctx()
        ctx.extra['aio_token'] = self._token
        ctx.extra['aio_task'] = self
        self._token.acquire()
        try:
            if self._cancel_req.get():
                self._cancel_req.set(False)
                self._coro.close()
                self._f.cancel()
                return
            try:
                r = drive(self._coro)
            except Abort:
                raise
            except CancelledError:
                self._f.cancel()
            except BaseException as e:  # noqa
                self._f.set_exception(e)
            else:
                self._f.set_result(r)
        finally:
            self._token.release()

    def cancel(self, msg=None):
        if self._f.done():
            return False
        self._cancel_req.set(True)
        return True

    def get_name(self):
        return self._th.name


def create_task(coro, *, name=None):
    return ATask(coro, name)


async def gather(*aws, return_exceptions=False):
    ts = [a if isinstance(a, AFuture) else ATask(a) for a in aws]
    out = []
    for t in ts:
        try:
            out.append(await t)
        except Abort:
            raise
        except Exception as e:
            if not return_exceptions:
                raise
            out.append(e)
    return out


# ---- byte streams ---------------------------------------------------------------------------------------------------
_EOF = ('$stream-eof',)
IncompleteReadError = _real_asyncio.IncompleteReadError


class Wire:
    """One direction of a connection: an unbounded FIFO of the chunks written (a thread-safe queue, so the two ends may
    live in different loops / processes)."""

    def __init__(self):
        self.q = SQueue(0)


class AStreamWriter:
    """asyncio.StreamWriter: write() buffers without blocking; drain() does not suspend (true below the transport's
    high-water mark, 64 KiB); close() delivers end-of-file to the peer."""

    def __init__(self, wire):
        self._wire = wire
        self._closed = False

    def write(self, data):
        if self._closed:
            raise RuntimeError('write after close')
        self._wire.q.put(bytes(data))

    async def drain(self):
        return None

    def close(self):
        if not self._closed:
            self._closed = True
            self._wire.q.put(_EOF)

    def is_closing(self):
        return self._closed

    async def wait_closed(self):
        return None

    def get_extra_info(self, name, default=None):
        return 'peer'


class AStreamReader:
    """asyncio.StreamReader over a Wire.  The buffer is local to the (single) reading task."""

    def __init__(self, wire):
        self._wire = wire
        self._buf = b''
        self._eof = False

    async def _more(self):
        if self._eof:
            return False
        q = self._wire.q
        try:
            x = q.get(False)
        except _q.Empty:
            _suspend_begin()
            if _timed():
                try:
                    x = q.get(True, 1)
                except _q.Empty:
                    _suspend_end()
                    raise TimeoutError() from None
            else:
                x = q.get(True)
            _suspend_end()
        if isinstance(x, tuple) and x == _EOF:
            self._eof = True
            return False
        self._buf += x
        return True

    async def readuntil(self, separator=b'\n'):
        while True:
            k = self._buf.find(separator)
            if k >= 0:
                out, self._buf = self._buf[:k + len(separator)], self._buf[k + len(separator):]
                return out
            if not await self._more():
                part, self._buf = self._buf, b''
                raise IncompleteReadError(part, None)

    async def readexactly(self, n):
        while len(self._buf) < n:
            if not await self._more():
                part, self._buf = self._buf, b''
                raise IncompleteReadError(part, n)
        out, self._buf = self._buf[:n], self._buf[n:]
        return out

    async def read(self, n=-1):
        if not self._buf and not await self._more():
            return b''
        if n < 0:
            n = len(self._buf)
        out, self._buf = self._buf[:n], self._buf[n:]
        return out


def connection():
    """Two connected (reader, writer) pairs: ((reader_a, writer_a), (reader_b, writer_b)); what a writes, b reads."""
    ab, ba = Wire(), Wire()
    return (AStreamReader(ba), AStreamWriter(ab)), (AStreamReader(ab), AStreamWriter(ba))


class _Loop:
    def create_task(self, coro, *, name=None):
        return ATask(coro, name)

    def create_future(self):
        return AFuture()


def get_running_loop():
    loop_token()
    return _Loop()


def get_event_loop():
    return _Loop()


fake_asyncio = types.SimpleNamespace(
    Queue=AQueue, Event=AEvent, Future=AFuture, Task=ATask, create_task=create_task, sleep=sleep,
    get_running_loop=get_running_loop, get_event_loop=get_event_loop, CancelledError=CancelledError,
    TimeoutError=TimeoutError, InvalidStateError=InvalidStateError, QueueEmpty=QueueEmpty, QueueFull=QueueFull,
    wait_for=wait_for, gather=gather, IncompleteReadError=IncompleteReadError,
    run=run, iscoroutinefunction=_real_asyncio.iscoroutinefunction, iscoroutine=_real_asyncio.iscoroutine,
)
