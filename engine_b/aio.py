"""A model of the asyncio event loop for Engine B.

Every asyncio Task is a thread of the model; the event loop is ONE mutex (the *loop token*): a task
holds it whenever it runs and gives it up only where a real task would suspend — at an `await`
that cannot complete at once (empty/full queue, unset event, pending future/task) and at
`sleep()`.  Everything a task does between two suspension points is therefore atomic with respect to
the other tasks of the loop, exactly as in asyncio, and because every access to loop-local state
holds the token, Lipton fusion collapses those stretches into single steps.  Which ready task runs
next is the scheduler's (the solver's) choice, an over-approximation of asyncio's FIFO ready queue.

Awaitables never really suspend the Python coroutine: the blocking is in the primitive operation
(a guard in the model), so a coroutine is driven to completion with one `send(None)`.
Cancellation is delivered at the suspension points of the cancelled task (a task blocked inside a
queue/future wait is not interrupted — stated limitation).
"""
from __future__ import annotations

import asyncio as _real_asyncio
import queue as _q
import types

from .rt import Abort
from .stubs import SCell, SEvent, SFuture, SLock, SQueue, SThread, _rt

CancelledError = _real_asyncio.CancelledError
TimeoutError = _real_asyncio.TimeoutError
InvalidStateError = _real_asyncio.InvalidStateError
QueueEmpty = _real_asyncio.QueueEmpty
QueueFull = _real_asyncio.QueueFull


class _LoopState:
    def __init__(self):
        self.token = None  # SLock
        self.current = {}  # thread ctx name -> ATask


def _ls():
    rt = _rt()
    ls = getattr(rt, '_aio', None)
    if ls is None or ls.get('run') != id(rt):
        ls = rt._aio = {'run': id(rt)}
    return ls


def loop_token():
    """The loop token of the current run (created by the first task = the driver)."""
    rt = _rt()
    ctx = rt.current_ctx()
    tok = ctx.extra.get('aio_token')
    if tok is None:
        raise RuntimeError('no running event loop')
    return tok


def drive(coro):
    """Run a coroutine whose awaits never really suspend."""
    try:
        coro.send(None)
    except StopIteration as s:
        return s.value
    raise RuntimeError('coroutine suspended for real: an awaitable outside the asyncio model was awaited')


def run(coro):
    """asyncio.run for the driver thread: create the loop token, hold it, drive the coroutine."""
    ctx = _rt().current_ctx()
    tok = SLock()
    ctx.extra['aio_token'] = tok
    ctx.extra['aio_task'] = None
    tok.acquire()
    result = None
    try:
        result = drive(coro)  # kept in a local: a value in flight on the hidden stack is invisible to fingerprints
    finally:
        tok.release()
    return result


def _suspend_begin():
    loop_token().release()


def _suspend_end():
    loop_token().acquire()
    t = _rt().current_ctx().extra.get('aio_task')
    if t is not None and t._cancel_req.get():
        t._cancel_req.set(False)
        raise CancelledError()


async def sleep(delay=0, result=None):
    _suspend_begin()
    _suspend_end()
    return result


class AEvent:
    def __init__(self):
        self._e = SEvent()

    def is_set(self):
        return self._e.is_set()

    def set(self):
        self._e.set()

    def clear(self):
        self._e.clear()

    async def wait(self):
        if self._e.is_set():
            return True
        _suspend_begin()
        self._e.wait()
        _suspend_end()
        return True


class AQueue:
    def __init__(self, maxsize=0):
        self._q = SQueue(maxsize)
        self.maxsize = maxsize

    async def get(self):
        try:
            return self._q.get(False)
        except _q.Empty:
            pass
        _suspend_begin()
        v = self._q.get(True)
        _suspend_end()
        return v

    async def put(self, x):
        try:
            return self._q.put(x, False)
        except _q.Full:
            pass
        _suspend_begin()
        self._q.put(x, True)
        _suspend_end()

    def get_nowait(self):
        try:
            return self._q.get(False)
        except _q.Empty:
            raise QueueEmpty

    def put_nowait(self, x):
        try:
            return self._q.put(x, False)
        except _q.Full:
            raise QueueFull

    def empty(self):
        return self._q.empty()

    def full(self):
        return self._q.full()

    def qsize(self):
        return self._q.qsize()

    def task_done(self):
        pass


class AFuture:
    """asyncio.Future over the Future contract of sem.py."""

    def __init__(self, *, loop=None, _name=None):
        self._f = SFuture(name=_name)
        self._vname = self._f._vname + '.a'

    def __eq__(self, o):
        return getattr(o, '_vname', None) == self._vname

    def __hash__(self):
        return hash(self._vname)

    def set_result(self, v):
        return self._f.set_result(v)

    def set_exception(self, e):
        return self._f.set_exception(e)

    def done(self):
        return self._f.done()

    def cancelled(self):
        return self._f.cancelled()

    def cancel(self, msg=None):
        return self._f.cancel()

    def result(self):
        if not self._f.done():
            raise InvalidStateError('Result is not ready.')
        return self._f.result()

    def exception(self):
        if not self._f.done():
            raise InvalidStateError('Exception is not set.')
        return self._f.exception()

    def _wait(self):
        if self._f.done():
            return self._f.result()
        _suspend_begin()
        try:
            return self._f.result()
        finally:
            _suspend_end()

    def __await__(self):
        if False:
            yield
        return self._wait()

    __iter__ = __await__


class ATask(AFuture):
    """asyncio.Task: a model thread that holds the loop token while it runs the coroutine."""

    def __init__(self, coro, name=None):
        # everything a task owns is named after its thread, so that a task handed to another
        # thread denotes the same symbolic objects whatever path created it
        try:
            import hashlib
            fr = getattr(coro, 'cr_frame', None)
            loc = dict(fr.f_locals) if fr is not None else {}
            key = _rt().vals.key({k: v for k, v in loc.items() if isinstance(v, (int, str, tuple, bool, type(None)))})
            disc = hashlib.sha1(repr((getattr(coro, '__qualname__', ''), key)).encode()).hexdigest()[:6]
        except Exception:
            disc = ''

        class _T(SThread):
            _disc = disc

        self._th = _T(target=self._body, name=name or 'task')
        super().__init__(_name=self._th._vname + '.fut')
        self._coro = coro
        self._cancel_req = SCell(False, name=self._th._vname + '.cancel')
        self._token = loop_token()
        self._vname = self._th._vname + '.task'
        self._th.start()

    def _body(self):
        ctx = _rt().current_ctx()
        ctx.extra['aio_token'] = self._token
        ctx.extra['aio_task'] = self
        self._token.acquire()
        try:
            if self._cancel_req.get():
                self._cancel_req.set(False)
                self._coro.close()
                self._f.cancel()
                return
            try:
                r = drive(self._coro)
            except Abort:
                raise
            except CancelledError:
                self._f.cancel()
            except BaseException as e:  # noqa
                self._f.set_exception(e)
            else:
                self._f.set_result(r)
        finally:
            self._token.release()

    def cancel(self, msg=None):
        if self._f.done():
            return False
        self._cancel_req.set(True)
        return True

    def get_name(self):
        return self._th.name


def create_task(coro, *, name=None):
    return ATask(coro, name)


class _Loop:
    def create_task(self, coro, *, name=None):
        return ATask(coro, name)

    def create_future(self):
        return AFuture()


def get_running_loop():
    loop_token()
    return _Loop()


def get_event_loop():
    return _Loop()


fake_asyncio = types.SimpleNamespace(
    Queue=AQueue, Event=AEvent, Future=AFuture, Task=ATask, create_task=create_task, sleep=sleep,
    get_running_loop=get_running_loop, get_event_loop=get_event_loop, CancelledError=CancelledError,
    TimeoutError=TimeoutError, InvalidStateError=InvalidStateError, QueueEmpty=QueueEmpty, QueueFull=QueueFull,
    run=run, iscoroutinefunction=_real_asyncio.iscoroutinefunction, iscoroutine=_real_asyncio.iscoroutine,
)
