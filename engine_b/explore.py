"""Thread-modular symbolic execution of the real code, driven concolically.

Each thread of a scenario is executed in isolation on the symbolic primitives (stubs.py): a run
follows a script of cases — one case of the symbolic result per primitive operation — and the
sequence of (operation, case) pairs it performs is a path of that thread's tree.  Guards and effects
of the edges over the shared symbolic state come from sem.py.

Which paths get executed is decided by a *concolic pre-pass*: a budgeted concrete exploration of the
product (same sem.py, concrete back end) that only ever asks for cases that are feasible in some
reachable global state.  The pre-pass decides nothing: every case of every operation that has not
been executed stays in the automaton as a FRONTIER edge, and the solver query (bmc.py) must show
that no frontier edge is reachable; when it is, the edge is executed and the query repeated.
"""
from __future__ import annotations

import contextlib
import gc
import io
import random
import sys
import time

from . import rt as _rtmod
from .rt import Abort, ExploreLimit, OpRec, ThreadCtx, Unsupported
from .sem import CA, KINDS, SymState


class Disabled(Exception):
    pass


class MergeRefuted(Unsupported):
    """Differential validation showed that two histories merged by fingerprint behave differently."""

    def __init__(self, tname, node, msg):
        super().__init__(msg)
        self.tname, self.node = tname, node


class CSym(SymState):
    """Concrete state view with copy-on-write; a false guard aborts the evaluation."""

    def __init__(self, base, env):
        self.base = base
        self.over = {}
        self.env = env
        self.A = CA
        self.reads = set()
        self.writes = set()

    def get(self, n):
        v = self.over.get(n)
        if v is None:
            v = self.base.get(n)
            if v is None:
                v = self.env.var_init.get(n, 0)
        return v

    def set(self, n, e):
        self.over[n] = e

    def require(self, b):
        if not b:
            raise Disabled()

    def has(self, n):
        return True

    def result(self):
        d = dict(self.base)
        d.update(self.over)
        return d


class CEnv:
    """Environment of the concrete back end."""

    def __init__(self, rt, explorer):
        self.rt = rt
        self.ex = explorer
        self.var_init = {}
        self.VW = 16

    def uni(self, name, slot='v'):
        return self.rt.universe.get((name, slot), [])


class Node:
    __slots__ = ('id', 'desc', 'loc', 'children', 'terminal', 'path', 'parent', 'pcase', 'depth', 'fp', 'alts')

    def __init__(self, nid, path, parent, pcase):
        self.id = nid
        self.desc = None  # (obj, kind, op, iargs)
        self.loc = None
        self.children = {}  # case -> Node
        self.terminal = None  # ('returned', verdict) | ('raised', text) | None
        self.path = path
        self.parent = parent
        self.pcase = pcase
        self.depth = len(path)
        self.fp = None
        self.alts = []  # other paths of the thread that lead to the same local state (merged)


class Tree:
    def __init__(self, name):
        self.name = name
        self.nodes = []
        self.root = self.new_node((), None, None)

    def new_node(self, path, parent, pcase):
        n = Node(len(self.nodes), path, parent, pcase)
        self.nodes.append(n)
        return n


class ThreadInfo:
    def __init__(self, name, parent, prefix, handle, tid):
        self.name = name
        self.parent = parent
        self.prefix = tuple(prefix)
        self.tree = Tree(name)
        self.handle_sig = handle
        self.tid = tid


class GState:
    __slots__ = ('v', 'pos')

    def __init__(self, v, pos):
        self.v = v
        self.pos = pos  # dict thread -> Node

    def key(self):
        return (tuple(sorted(self.v.items())), tuple(sorted((t, n.id) for t, n in self.pos.items())))


FP_BLACKLIST = set()
TIMEOUT_CASES = ('fail', 'timeout', 'Empty', 'Full')
TIMEOUT_BUDGET = 3


def is_timeout_case(desc, case):
    """A case that stands for `the timed wait expired` (time passing)."""
    obj, kind, op, iargs = desc
    if case not in TIMEOUT_CASES and case is not False:
        return False
    if kind == 'Lock':
        return op == 'acquire' and case == 'fail' and iargs[0] and iargs[1]
    if kind == 'Seq':
        return (op == 'get' and case == 'Empty' and iargs[0] and iargs[1]) or (
            op == 'put' and case == 'Full' and iargs[1] and iargs[2])
    if kind == 'Future':
        return op in ('result', 'exception') and case == 'timeout'
    if kind == 'Thread':
        return op == 'join' and case == 'timeout'
    if kind == 'Event':
        return op == 'wait' and case is False and iargs[0]
    return False


def over_budget(node, case):
    """Bound on the environment: the same timed wait (thread, source location) expires at most
    TIMEOUT_BUDGET times along one path.  Loops that merge into a cycle never reach it."""
    if node.desc is None or not is_timeout_case(node.desc, case):
        return False
    key = (node.desc[1], node.desc[2], node.loc[:3] if node.loc else None)
    n = 0
    m = node
    seen = 0
    while m.parent is not None and seen < 400:
        p = m.parent
        if p.desc is not None and (p.desc[1], p.desc[2], p.loc[:3] if p.loc else None) == key \
                and is_timeout_case(p.desc, m.pcase):
            n += 1
            if n >= TIMEOUT_BUDGET:
                return True
        m = p
        seen += 1
    return False


class Explorer:
    def __init__(self, scn, seed=0, max_cycle=4, verbose=False):
        self.scn = scn
        self.threads = {}
        self.order = []
        self.runs = 0
        self.max_cycle = max_cycle
        self.verbose = verbose
        self.chain = []
        self.finished = None
        self.alias = None
        self.scratch = None
        self.t_explore = 0.0
        self.rng = random.Random(seed)
        self.cenv = None
        self.visited = set()
        self.states_seen = 0
        self.stack = []
        self.fpmap = {}
        self.merge = None
        self.merges = 0
        self.validations = 0

    # -------------------------------------------------------------------------------------
    def add_thread(self, name, parent, prefix, sig):
        if name not in self.threads:
            self.threads[name] = ThreadInfo(name, parent, prefix, sig, len(self.threads) + 1)
            self.order.append(name)
        else:
            ti = self.threads[name]
            if ti.handle_sig != sig:
                raise Unsupported(f'thread {name} started with different targets: {ti.handle_sig} vs {sig}')

    def on_thread_start(self, th):
        rt = _rtmod.RT
        ctx = rt.cur
        tgt = getattr(th, '_target', None)
        sig = (type(th).__name__, getattr(tgt, '__qualname__', None))
        self.add_thread(th._vname, ctx.name, ctx.script[: ctx.pos], sig)
        if self.chain and self.chain[0][0] == th._vname and ctx.pos == len(ctx.script) and not ctx.explore:
            _, script, explore = self.chain.pop(0)
            child = ThreadCtx(th._vname, script, explore)
            rt.cur = child
            status = None
            try:
                rt.op(th, 'begin')
                th.run()
                child.extra['ending'] = 'returned'   # how the thread ends is part of its local state (fingerprint)
                rt.op(th, 'exit')
                status = ('returned', None)
            except Abort:
                raise
            except BaseException as e:  # uncaught exception ends the thread
                if rt.aborting:
                    raise Abort()
                child.extra['ending'] = f'raised {type(e).__name__}: {e}'
                rt.op(th, 'exit')
                status = ('raised', f'{type(e).__name__}: {e}')
            if explore:
                self.finished = (child, status)
            rt.aborting = True
            raise Abort()

    # ---- called by rt.op beyond the script ------------------------------------------------
    def pick(self, ctx, obj, op, iargs, loc, fp=None):
        """Solo continuation: take the first case that is enabled in the scratch global state.
        Returns a case, or None (blocked / alias / no scratch)."""
        tr = ctx.trace
        d = len(tr)
        desc = (obj._vname, obj._kind, op, iargs)
        if fp is not None and not self.validating:
            tgt = self.fpmap.get((ctx.name, desc, fp))
            if tgt is not None and (ctx.name, fp) in FP_BLACKLIST:
                tgt = None
            if tgt is not None and tgt.path != tuple(ctx.script[: ctx.pos]):
                # the same local state was reached before along another history: merge
                self.merge = tgt
                return 'ALIAS'
        if fp is not None and not self.validating and (ctx.name, fp) not in FP_BLACKLIST:
            # the same local state at the same operation earlier in THIS run (a polling loop whose body is not made of
            # state-preserving operations only, e.g. it gives up and retakes a lock): close the cycle
            for j in range(d - 1, max(-1, d - 200), -1):
                r = tr[j]
                if r.fp == fp and r.desc() == desc and r.loc == loc:
                    self.alias = d - j
                    return 'ALIAS'
        for p in range(1, self.max_cycle + 1):
            if d < 2 * p:
                break
            ok = True
            for i in range(p):
                a, b = tr[d - p + i], tr[d - 2 * p + i]
                if a.desc() != b.desc() or a.case != b.case or a.loc != b.loc:
                    ok = False
                    break
                if not KINDS[a.kind].preserving(a.op, a.args, a.case):
                    ok = False
                    break
            if ok and tr[d - p].desc() == desc and tr[d - p].loc == loc:
                self.alias = p
                return 'ALIAS'
        if self.scratch is None:
            return None
        tid = self.threads[ctx.name].tid
        for c, nv in self.enabled(tid, desc, self.scratch):
            if is_timeout_case(desc, c):
                key = (desc[1], desc[2], loc[:3])
                cnt = sum(1 for r in tr if (r.kind, r.op, r.loc[:3]) == key and is_timeout_case(r.desc(), r.case))
                if cnt >= TIMEOUT_BUDGET:
                    continue
            self.scratch = nv
            return c
        return None

    # ---- concrete semantics -----------------------------------------------------------------
    def enabled(self, tid, desc, v):
        """Yield (case, new concrete state) for every case of `desc` enabled in state v."""
        rt = _rtmod.RT
        obj, kind, op, iargs = desc
        K = KINDS[kind]
        if kind == 'Input':
            key = '$in.' + str(iargs[0])
            cur = v.get(key)
            if cur is None:
                for c in range(iargs[1]):
                    nv = dict(v)
                    nv[key] = c
                    yield c, nv
            else:
                yield cur, v
            return
        cfg = rt.objs[obj][1]
        for c in K.cases(rt, obj, op, iargs):
            S = CSym(v, self.cenv)
            try:
                K.sem(S, tid, obj, cfg, op, iargs, c)
            except Disabled:
                continue
            yield c, (S.result() if S.over else v)

    # -------------------------------------------------------------------------------------
    def run(self, tname, script):
        """Execute thread `tname` along `script`, then solo-continue on self.scratch."""
        rt = _rtmod.RT
        self.runs += 1
        chain = []
        t = tname
        while self.threads[t].parent is not None:
            chain.append(t)
            t = self.threads[t].parent
        chain.reverse()
        self.chain = []
        for i, c in enumerate(chain):
            last = i == len(chain) - 1
            self.chain.append((c, list(script) if last else list(self.threads[chain[i + 1]].prefix), last))
        root_is_target = not chain
        root_script = list(script) if root_is_target else list(self.threads[chain[0]].prefix)
        ctx = ThreadCtx('main', root_script, root_is_target)
        rt.cur = ctx
        rt.mode = 'explore'
        rt.aborting = False
        self.finished = None
        self.alias = None
        self.merge = None
        rt.limit_hit = None
        status = None
        out = io.StringIO()
        try:
            with contextlib.redirect_stdout(out), contextlib.redirect_stderr(out):
                try:
                    verdict = self.scn.main()
                    status = ('returned', verdict)
                except Abort:
                    pass
                except BaseException as e:
                    if not rt.aborting:
                        status = ('raised', f'{type(e).__name__}: {e}')
                finally:
                    rt.aborting = True
        finally:
            rt.aborting = True
        if rt.limit_hit:
            raise ExploreLimit(rt.limit_hit)
        if rt.error:
            e, rt.error = rt.error, None
            raise e
        alias = self.alias if self.merge is None else ('merge', self.merge)
        if root_is_target:
            tctx, tstatus = ctx, status
        elif self.finished is not None:
            tctx, tstatus = self.finished
        else:
            tctx = rt.cur if rt.cur.name == tname else None
            tstatus = None
            if tctx is None:
                raise Unsupported(f'run of {tname} did not reach the thread (chain broken at {rt.cur.name})')
        return tctx, tstatus, alias

    def insert(self, tname, ctx, status, alias):
        tree = self.threads[tname].tree
        node = tree.root
        path = ()
        tr = ctx.trace
        for i, rec in enumerate(tr):
            if node.desc is None:
                if node.terminal is not None:
                    raise Unsupported(f'{tname}: operation after a recorded thread end (non-determinism)')
                node.desc = rec.desc()
                node.loc = rec.loc
                if rec.fp is not None:
                    node.fp = rec.fp
                    self.fpmap.setdefault((tname, node.desc, rec.fp), node)
            elif node.desc != rec.desc():
                raise Unsupported(
                    f'non-deterministic thread-local behaviour in {tname} at depth {i}: '
                    f'{node.desc} vs {rec.desc()} (loc {node.loc} / {rec.loc})')
            if rec.case is None:
                return  # pending operation (blocked in the scratch state)
            child = node.children.get(rec.case)
            path = path + (rec.case,)
            last = i == len(tr) - 1
            if child is None:
                if alias is not None and last:
                    if isinstance(alias, tuple):
                        tgt = alias[1]
                        node.children[rec.case] = tgt
                        if len(tgt.alts) < 3 and path != tgt.path:
                            tgt.alts.append(path)
                        self.merges += 1
                        return
                    anc = node
                    for _ in range(alias - 1):
                        anc = anc.parent
                    node.children[rec.case] = anc
                    return
                child = tree.new_node(path, node, rec.case)
                child.alts = [a + (rec.case,) for a in node.alts[:2]]
                node.children[rec.case] = child
            elif alias is not None and last:
                return
            node = child
        if status is not None:
            if node.desc is not None:
                raise Unsupported(f'{tname}: path ends where an operation was recorded before (non-determinism)')
            node.terminal = status

    validating = False

    def expand(self, tname, path, scratch):
        """Execute thread tname along `path` and solo-continue from global state `scratch`."""
        self.scratch = scratch
        ctx, status, alias = self.run(tname, path)
        self.insert(tname, ctx, status, alias)
        self.scratch = None
        # differential validation of fingerprint merges: if the node this path leads to can also be
        # reached along a merged history, that history must show the same next operation
        node = self.threads[tname].tree.root
        for c in path:
            node = node.children.get(c)
            if node is None:
                return
        if node.alts:
            alt = node.alts[self.validations % len(node.alts)]
            self.validations += 1
            self.validating = True
            try:
                ctx2, status2, _ = self.run(tname, alt)
            finally:
                self.validating = False
            tr = ctx2.trace
            if len(tr) > len(alt):
                got = ('op', tr[len(alt)].desc())
            elif status2 is not None:
                got = ('end', status2[0], str(status2[1]))
            else:
                got = None
            want = ('op', node.desc) if node.desc is not None else (
                ('end', node.terminal[0], str(node.terminal[1])) if node.terminal is not None else None)
            if got is not None and want is not None and got != want:
                raise MergeRefuted(tname, node, f'fingerprint merge refuted in {tname}: via {node.path[-3:]} next is '
                                   f'{want}, via merged history {alt[-3:]} it is {got}')

    # ---- budgeted concrete exploration of the product -------------------------------------------
    def node_at(self, st, t):
        n = st.pos.get(t)
        if n is None:
            n = self.threads[t].tree.root
        return n

    def successors(self, st):
        for t in list(self.order):
            node = self.node_at(st, t)
            if node.terminal is not None:
                continue
            if node.desc is None:
                self.expand(t, node.path, st.v)
                if node.desc is None:
                    continue
            tid = self.threads[t].tid
            for c, nv in self.enabled(tid, node.desc, st.v):
                if over_budget(node, c):
                    continue
                ch = node.children.get(c)
                if ch is None:
                    self.expand(t, node.path + (c,), nv)
                    ch = node.children.get(c)
                    if ch is None:
                        raise Unsupported(f'expansion of {t} at {node.desc} case {c} produced no node')
                pos = dict(st.pos)
                pos[t] = ch
                yield t, c, GState(nv, pos)

    def search(self, roots, max_states=20000, max_s=30.0):
        t0 = time.time()
        stack = list(roots)
        n0 = self.states_seen
        while stack:
            if self.states_seen - n0 >= max_states or time.time() - t0 > max_s:
                break
            st = stack.pop()
            k = st.key()
            if k in self.visited:
                continue
            self.visited.add(k)
            self.states_seen += 1
            succ = [s for _, _, s in self.successors(st)]
            self.rng.shuffle(succ)
            stack.extend(succ)
            if self.states_seen % 2000 == 0:
                gc.collect()
        self.stack = stack
        return not stack

    def explore(self, max_states=20000, max_s=30.0):
        rt = _rtmod.RT
        t0 = time.time()
        rt.kinds = KINDS
        rt.explorer = self
        self.cenv = CEnv(rt, self)
        rt.cenv = self.cenv
        gcwas = gc.isenabled()
        gc.disable()
        try:
            self.add_thread('main', None, (), ('main', None))
            init = GState({}, {})
            self.complete = self.search([init], max_states, max_s)
            gc.collect()
        finally:
            if gcwas:
                gc.enable()
            rt.aborting = True
            rt.mode = None
        self.t_explore += time.time() - t0
        return self

    def continue_from(self, steps, inputs, frontier, max_states=5000, max_s=10.0):
        """Replay a solver schedule concretely, execute the frontier edge it reaches, and explore on
        from there.  `steps`: list of (thread, [(desc, case), ...])."""
        rt = _rtmod.RT
        t0 = time.time()
        gcwas = gc.isenabled()
        gc.disable()
        rt.mode = 'explore'
        try:
            v = {('$in.' + n): x for n, x in inputs.items() if self._input_used(n)}
            v = {}
            pos = {}
            st = GState(v, pos)
            for (t, prims) in steps:
                for (desc, case) in prims:
                    node = self.node_at(st, t)
                    if node.desc is None:
                        self.expand(t, node.path, st.v)
                    if node.desc != desc:
                        raise Unsupported(f'schedule replay diverged in {t}: {node.desc} vs {desc}')
                    tid = self.threads[t].tid
                    nv = None
                    if isinstance(case, tuple) and case and case[0] == '$else':
                        for c, x in self.enabled(tid, desc, st.v):
                            if c not in case[1]:
                                case, nv = c, x
                                break
                    else:
                        for c, x in self.enabled(tid, desc, st.v):
                            if c == case:
                                nv = x
                                break
                    if nv is None:
                        raise Unsupported(f'schedule replay: {desc} case {case} not enabled concretely')
                    ch = node.children.get(case)
                    if ch is None:
                        self.expand(t, node.path + (case,), nv)
                        ch = node.children[case]
                    pos = dict(st.pos)
                    pos[t] = ch
                    st = GState(nv, pos)
            self.search([st] + self.stack, max_states, max_s)
            gc.collect()
        finally:
            if gcwas:
                gc.enable()
            rt.aborting = True
            rt.mode = None
        self.t_explore += time.time() - t0

    def _input_used(self, n):
        return True

    def stats(self):
        return {
            'threads': len(self.threads),
            'isolated_runs': self.runs,
            'tree_nodes': {t: len(i.tree.nodes) for t, i in self.threads.items()},
            'concolic_states': self.states_seen,
            'concolic_complete': bool(getattr(self, 'complete', False)),
            'explore_s': round(self.t_explore, 2),
            'fingerprint_merges': self.merges,
            'merge_validations': self.validations,
        }
