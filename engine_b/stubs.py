"""Python-side handles of the symbolic primitives, and the patching of mpservice's modules.

The handles are stateless in explore mode (state lives in the solver); in replay mode the very same
classes wrap the *real* stdlib primitive and only add a gate (see replay.py), so that the real
mpservice code runs on real locks, deques, queues, futures and threads in the order the solver chose.
`threading.Condition` is not stubbed: CPython's own pure-python implementation is re-bound onto the
stub Lock / deque, so its semantics (waiter locks, FIFO notify, timed-out waiters that still absorb
a notify) come from the real source.
"""
from __future__ import annotations

import collections
import concurrent
import concurrent.futures as _cf
import contextlib
import queue as _q
import sys
import threading as _th
import time as _time
import types

from .rt import RT, Abort, Unsupported


def _rt():
    from . import rt

    return rt.RT


def _alloc(kind, cfg, name=None):
    rt = _rt()
    if rt.mode is None:
        raise Unsupported('primitive created outside a run')
    if rt.aborting and rt.mode == 'explore':
        raise Abort()
    ctx = rt.current_ctx()
    nm = name or ctx.alloc(kind if kind != 'Seq' else cfg.get('flavor', 'Seq'))
    try:
        rt.declare(nm, kind, cfg)
    except Unsupported as e:
        rt.fatal(e)
    return nm


def _unsup(msg):
    _rt().fatal(Unsupported(msg))


class Prim:
    _kind = '?'
    _vname = None

    def _op(self, op, *args):
        return _rt().op(self, op, *args)

    def __repr__(self):
        return f'<{self._vname}>'

    # handles are interned by name, so they must hash/compare by identity of the name
    def __eq__(self, other):
        return isinstance(other, Prim) and other._vname == self._vname

    def __hash__(self):
        return hash(self._vname)


# ---------------------------------------------------------------------------------------------
class SLock(Prim):
    _kind = 'Lock'
    _reentrant = False

    def __init__(self):
        self._vname = _alloc('Lock', {'reentrant': self._reentrant})
        if _rt().mode == 'replay':
            self._real = _th.RLock() if self._reentrant else _th.Lock()

    def _held(self):
        return _rt().current_ctx().extra.setdefault('held', {})

    def acquire(self, blocking=True, timeout=-1):
        has_to = timeout is not None and 0 <= timeout < float('inf') and blocking
        r = self._op('acquire', bool(blocking), bool(has_to))
        if r:
            h = self._held()
            h[self._vname] = h.get(self._vname, 0) + 1
        return r

    def release(self):
        self._op('release')
        h = self._held()
        if h.get(self._vname, 0) > 0:
            h[self._vname] -= 1

    def locked(self):
        return self._op('locked')

    def _is_owned(self):
        # thread-local knowledge: a thread knows which locks it acquired on its own path
        return self._held().get(self._vname, 0) > 0

    __enter__ = acquire

    def __exit__(self, *a):
        self.release()

    def _at_fork_reinit(self):
        pass

    def _do_real(self, op, blocking=True, has_to=False, case=None):
        if op == 'acquire':
            if not blocking:
                return self._real.acquire(False)
            if has_to:
                # the schedule decides: 'ok' -> plain acquire (is free by now), 'fail' -> a poll
                return self._real.acquire(True, 5) if case == 'ok' else (self._real.acquire(False) if case else self._real.acquire(True, 0.05))
            return self._real.acquire()
        if op == 'release':
            return self._real.release()
        if op == 'locked':
            return self._real.locked()
        raise Unsupported(op)


class SRLock(SLock):
    _reentrant = True

    def locked(self):
        _unsup('RLock.locked')


# ---------------------------------------------------------------------------------------------
class SDeque(Prim):
    _kind = 'Seq'

    def __init__(self, iterable=(), maxlen=None):
        rt = _rt()
        if maxlen is not None:
            _unsup('tracked deque with maxlen')
        self._vname = _alloc('Seq', {'flavor': 'deque', 'cap': rt.cap_for('deque'), 'maxsize': 0})
        if rt.mode == 'replay':
            self._real = collections.deque()
        for x in iterable:
            self.append(x)

    def append(self, x):
        self._op('append', x)

    def appendleft(self, x):
        self._op('appendleft', x)

    def popleft(self):
        return self._op('popleft')

    def pop(self):
        return self._op('pop')

    def remove(self, x):
        return self._op('remove', x)

    def clear(self):
        return self._op('clear')

    def __len__(self):
        return self._op('len')

    def __bool__(self):
        return self._op('bool')

    def __contains__(self, x):
        return self._op('contains', x)

    def __getitem__(self, i):
        if i == 0:
            return self._op('peek0')
        _unsup('deque[i] for i != 0')

    def __iter__(self):
        _unsup('iteration over a tracked deque')

    def _do_real(self, op, *a, case=None):
        r = self._real
        if op == 'append':
            return r.append(a[0])
        if op == 'appendleft':
            return r.appendleft(a[0])
        if op == 'popleft':
            return r.popleft()
        if op == 'pop':
            return r.pop()
        if op == 'remove':
            return r.remove(a[0])
        if op == 'clear':
            return r.clear()
        if op == 'len':
            return len(r)
        if op == 'bool':
            return bool(r)
        if op == 'contains':
            return a[0] in r
        if op == 'peek0':
            return r[0]
        raise Unsupported(op)


# ---------------------------------------------------------------------------------------------
class SQueue(Prim):
    """queue.Queue / queue.SimpleQueue contract (atomic FIFO, blocking get/put)."""

    _kind = 'Seq'
    _simple = False

    def __init__(self, maxsize=0):
        rt = _rt()
        maxsize = 0 if self._simple else int(maxsize)
        cap = rt.cap_for('queue') if maxsize <= 0 else maxsize
        self.maxsize = maxsize
        self._vname = _alloc('Seq', {'flavor': 'queue', 'cap': cap, 'maxsize': maxsize})
        if rt.mode == 'replay':
            self._real = _q.SimpleQueue() if self._simple else _q.Queue(maxsize)

    def put(self, item, block=True, timeout=None):
        return self._op('put', item, bool(block), timeout is not None and bool(block))

    def get(self, block=True, timeout=None):
        return self._op('get', bool(block), timeout is not None and bool(block))

    def put_nowait(self, item):
        return self.put(item, False)

    def get_nowait(self):
        return self.get(False)

    def empty(self):
        return self._op('empty')

    def full(self):
        return self._op('full')

    def qsize(self):
        return self._op('qsize')

    def task_done(self):
        pass

    def close(self):
        pass

    def _do_real(self, op, *a, case=None):
        r = self._real
        if op == 'put':
            item, block, has_to = a
            if not block:
                return r.put(item, False)
            if has_to:
                return r.put(item, True, 5) if case == 'ok' else (r.put(item, False) if case else r.put(item, True, 0.05))
            return r.put(item)
        if op == 'get':
            block, has_to = a
            if not block:
                return r.get(False)
            if has_to:
                return (r.get(True, 0.05) if case is None else (r.get(True, 5) if case != 'Empty' else r.get(False)))
            return r.get()
        if op == 'empty':
            return r.empty()
        if op == 'full':
            return r.full() if not self._simple else False
        if op == 'qsize':
            return r.qsize()
        raise Unsupported(op)


class SSimpleQueue(SQueue):
    _simple = True

    def __init__(self):
        super().__init__(0)


# ---------------------------------------------------------------------------------------------
class SEvent(Prim):
    _kind = 'Event'

    def __init__(self):
        self._vname = _alloc('Event', {})
        if _rt().mode == 'replay':
            self._real = _th.Event()

    def is_set(self):
        return self._op('is_set')

    isSet = is_set

    def set(self):
        self._op('set')

    def clear(self):
        self._op('clear')

    def wait(self, timeout=None):
        return self._op('wait', timeout is not None)

    def _do_real(self, op, *a, case=None):
        r = self._real
        if op == 'is_set':
            return r.is_set()
        if op == 'set':
            return r.set()
        if op == 'clear':
            return r.clear()
        if op == 'wait':
            if a[0]:
                return r.wait(0.05) if case is None else (r.wait(5) if case else r.wait(0))
            return r.wait()
        raise Unsupported(op)


# ---------------------------------------------------------------------------------------------
class SFuture(Prim):
    _kind = 'Future'

    def __init__(self, name=None):
        self._vname = _alloc('Future', {}, name)
        if _rt().mode == 'replay':
            self._real = _cf.Future()

    def result(self, timeout=None):
        return self._op('result', timeout is not None and timeout < float('inf'))

    def exception(self, timeout=None):
        return self._op('exception', timeout is not None and timeout < float('inf'))

    def set_result(self, v):
        return self._op('set_result', v)

    def set_exception(self, e):
        return self._op('set_exception', e)

    def cancel(self):
        return self._op('cancel')

    def cancelled(self):
        return self._op('cancelled')

    def done(self):
        return self._op('done')

    def running(self):
        return self._op('running')

    def set_running_or_notify_cancel(self):
        return self._op('set_running_or_notify_cancel')

    def add_done_callback(self, fn):
        _unsup('Future.add_done_callback')

    def _do_real(self, op, *a, case=None):
        r = self._real
        if op in ('result', 'exception'):
            f = getattr(r, op)
            if a[0]:
                return f(0.05) if case is None else (f(5) if case != 'timeout' else f(0))
            return f()
        return getattr(r, op)(*a)


# ---------------------------------------------------------------------------------------------
class _Started:
    def __init__(self, th):
        self._th = th

    def is_set(self):
        return self._th._op('started')


class SThread(Prim):
    """Stands in for threading.Thread as the base class of mpservice.threading.Thread."""

    _kind = 'Thread'

    def __init__(self, group=None, target=None, name=None, args=(), kwargs=None, *, daemon=None):
        self._target = target
        self._args = args
        self._kwargs = kwargs or {}
        self._daemonic = bool(daemon)
        # the same creation site can start threads with different work (e.g. one task per element, some elements
        # skipped): the arguments are part of the thread's identity, so that each body gets its own path graph
        disc = getattr(self, '_disc', None)
        if disc is None:
            try:
                import hashlib
                rt_ = _rt()
                key = (rt_.vals.key(tuple(args)), rt_.vals.key(dict(kwargs or {})))
                disc = hashlib.sha1(repr(key).encode()).hexdigest()[:6] if (args or kwargs) else ''
            except Exception:
                disc = ''
        nm = _rt().current_ctx().alloc('Thread')
        self._vname = _alloc('Thread', {}, nm + ('#' + disc if disc else ''))
        self.name = name or self._vname
        self._started = _Started(self)
        self.ident = abs(hash(self._vname)) % 100000
        self._real = None

    @property
    def daemon(self):
        return self._daemonic

    @daemon.setter
    def daemon(self, v):
        self._daemonic = bool(v)

    def start(self):
        rt = _rt()
        self._op('start')
        if rt.mode == 'replay':
            rt.replay.spawn(self)
        else:
            rt.on_thread_start(self)

    def run(self):
        try:
            if self._target is not None:
                self._target(*self._args, **self._kwargs)
        finally:
            del self._target, self._args, self._kwargs

    def join(self, timeout=None):
        return self._op('join', timeout is not None)

    def is_alive(self):
        return self._op('is_alive')

    def _do_real(self, op, *a, case=None):
        if op in ('start', 'begin', 'exit'):
            return None
        if op == 'join':
            if a[0]:
                return self._real.join(5 if case == 'ok' else (0 if case else 0.05))
            return self._real.join()
        if op == 'is_alive':
            # the model's thread is alive until its 'exit' step; the real thread a little longer
            return self._real is not None and self._real.is_alive()
        if op == 'started':
            return self._real is not None
        raise Unsupported(op)


class _CurThread:
    def __init__(self, name):
        self.name = name
        self.ident = 1
        self.daemon = False

    def getName(self):
        return self.name


# ---------------------------------------------------------------------------------------------
class SExecutor(Prim):
    """Executor contract (thread and process pools alike).  Worker threads are framework code:
    take the oldest job; set_running_or_notify_cancel; run fn; set_result / set_exception."""

    _kind = 'Pool'

    def __init__(self, max_workers=None, *args, **kwargs):
        rt = _rt()
        if max_workers is None:
            max_workers = rt.cap_for('pool_workers')
        self._max_workers = max_workers
        self._shutdown = False
        self._processes = {}
        self._vname = _alloc('Pool', {'cap': rt.cap_for('pool_jobs'), 'workers': max_workers})
        self._workers = []
        for i in range(max_workers):
            w = _PoolWorker(self, i)
            self._workers.append(w)
        if rt.mode == 'replay':
            rt.replay.pool_start(self)
        else:
            for w in self._workers:
                rt.on_thread_start(w)

    def submit(self, fn, /, *args, **kwargs):
        fut = SFuture()
        job = (fn, tuple(args), dict(kwargs), fut)
        self._op('submit', job)
        return fut

    def shutdown(self, wait=True, *, cancel_futures=False):
        if cancel_futures:
            _unsup('shutdown(cancel_futures=True)')
        self._op('shutdown')
        self._shutdown = True
        if wait:
            for w in self._workers:
                w.join()

    def __enter__(self):
        return self

    def __exit__(self, *a):
        self.shutdown(wait=True)
        return False

    def _do_real(self, op, *a, case=None):
        return _rt().replay.pool_op(self, op, a, case)


class _PoolWorker(Prim):
    _kind = 'Thread'

    def __init__(self, pool, i):
        self.pool = pool
        self._vname = f'{pool._vname}.w{i}'
        self.name = self._vname
        _rt().declare(self._vname, 'Thread', {'init': 1})
        self._real = None

    def join(self, timeout=None):
        return self._op('join', timeout is not None)

    def run(self):
        pool = self.pool
        while True:
            job = pool._op('take')
            if job is None:
                return
            fn, args, kwargs, fut = job
            if not fut.set_running_or_notify_cancel():
                continue
            try:
                r = fn(*args, **kwargs)
            except Abort:
                raise
            except BaseException as e:  # noqa
                fut.set_exception(e)
            else:
                fut.set_result(r)

    def _do_real(self, op, *a, case=None):
        if op in ('begin', 'exit'):
            return None
        if op == 'join':
            return self._real.join()
        raise Unsupported(op)


# ---------------------------------------------------------------------------------------------
class SDict(Prim):
    _kind = 'Dict'

    def __init__(self, name=None):
        self._vname = _alloc('Dict', {}, name)
        if _rt().mode == 'replay':
            self._real = {}

    def __setitem__(self, k, v):
        self._op('setitem', k, v)

    def __getitem__(self, k):
        return self._op('getitem', k)

    def __delitem__(self, k):
        return self._op('delitem', k)

    def pop(self, k, *d):
        if d:
            return self._op('popd', k, d[0])
        return self._op('pop', k)

    def get(self, k, d=None):
        return self._op('get', k, d)

    def __contains__(self, k):
        return self._op('contains', k)

    def __len__(self):
        return self._op('len')

    def _do_real(self, op, *a, case=None):
        r = self._real
        if op == 'setitem':
            r[a[0]] = a[1]
            return None
        if op == 'getitem':
            return r[a[0]]
        if op == 'delitem':
            del r[a[0]]
            return None
        if op == 'pop':
            return r.pop(a[0])
        if op == 'popd':
            return r.pop(a[0], a[1])
        if op == 'get':
            return r.get(a[0], a[1])
        if op == 'contains':
            return a[0] in r
        if op == 'len':
            return len(r)
        raise Unsupported(op)


class SCell(Prim):
    _kind = 'Cell'

    def __init__(self, init=None, name=None):
        rt = _rt()
        vid = rt.vals.intern(init)
        self._vname = _alloc('Cell', {'init': vid}, name)
        rt.uni_add(self._vname, vid)
        if rt.mode == 'replay':
            self._real = init

    def get(self):
        return self._op('get')

    def set(self, v):
        self._op('set', v)

    def _do_real(self, op, *a, case=None):
        if op == 'get':
            return self._real
        self._real = a[0]


class SCounter(Prim):
    _kind = 'Counter'

    def __init__(self, name):
        self._vname = _alloc('Counter', {}, name)
        self._real = 0
        self._lk = _th.Lock()

    def inc(self):
        self._op('inc')

    def dec(self):
        self._op('dec')

    def _do_real(self, op, *a, case=None):
        with self._lk:
            self._real += 1 if op == 'inc' else -1


class _Input(Prim):
    _kind = 'Input'
    _vname = '$input'


INPUT = _Input()


def choose(name, n):
    """A symbolic input in range(n), fixed for the whole execution."""
    rt = _rt()
    rt.declare('$input', 'Input', {})
    return rt.op(INPUT, 'choose', name, n)


def tracked_attrs(cls, names):
    """Turn the plain attributes `names` of (instances of) `cls` into Cells: every read and write
    becomes an operation on shared symbolic state.  Returns an undo function."""
    saved = {}

    def mk(attr):
        slot = '_cell_' + attr

        def getter(self):
            c = self.__dict__.get(slot)
            if c is None:
                raise AttributeError(attr)
            return c.get()

        def setter(self, v):
            c = self.__dict__.get(slot)
            if c is None:
                self.__dict__[slot] = c = SCell(None)
            c.set(v)

        return property(getter, setter)

    for a in names:
        saved[a] = cls.__dict__.get(a, None)
        setattr(cls, a, mk(a))

    def undo():
        for a, old in saved.items():
            if old is None:
                delattr(cls, a)
            else:
                setattr(cls, a, old)

    return undo


# ---------------------------------------------------------------------------------------------
# CPython's Condition, re-bound onto the stub primitives
# ---------------------------------------------------------------------------------------------
def _rebind_class(cls, name, glb):
    ns = {}
    for k, v in cls.__dict__.items():
        if isinstance(v, types.FunctionType):
            ns[k] = types.FunctionType(v.__code__, glb, v.__name__, v.__defaults__, v.__closure__)
            ns[k].__kwdefaults__ = v.__kwdefaults__
        elif k not in ('__dict__', '__weakref__'):
            ns[k] = v
    return type(name, (object,), ns)


def _fake_time():
    return 0.0


_cond_globals = dict(_th.__dict__)
_cond_globals.update(_allocate_lock=SLock, Lock=SLock, RLock=SRLock, _deque=SDeque, _time=_fake_time)
SCondition = _rebind_class(_th.Condition, 'SCondition', _cond_globals)


# ---------------------------------------------------------------------------------------------
# fake modules
# ---------------------------------------------------------------------------------------------
def _current_thread():
    return _CurThread(_rt().current_ctx().name)


fake_threading = types.SimpleNamespace(
    Lock=SLock, RLock=SRLock, Condition=SCondition, Event=SEvent, Thread=SThread,
    current_thread=_current_thread, get_ident=lambda: 1, main_thread=lambda: _CurThread('main'),
    TIMEOUT_MAX=_th.TIMEOUT_MAX, enumerate=lambda: [], active_count=lambda: 1,
    excepthook=_th.excepthook, local=_th.local,
)

fake_queue = types.SimpleNamespace(Queue=SQueue, SimpleQueue=SSimpleQueue, Empty=_q.Empty, Full=_q.Full)


def _sleep(x=0):
    return None


fake_time = types.SimpleNamespace(
    perf_counter=_fake_time, monotonic=_fake_time, time=_fake_time, sleep=_sleep,
)

fake_cf = types.SimpleNamespace(
    Future=SFuture, ThreadPoolExecutor=SExecutor, ProcessPoolExecutor=SExecutor,
    TimeoutError=_cf.TimeoutError, CancelledError=_cf.CancelledError,
    InvalidStateError=_cf.InvalidStateError,
    FIRST_COMPLETED=_cf.FIRST_COMPLETED, FIRST_EXCEPTION=_cf.FIRST_EXCEPTION,
    ALL_COMPLETED=_cf.ALL_COMPLETED,
)
fake_concurrent = types.SimpleNamespace(futures=fake_cf)

_REPLACE = [
    (_th, fake_threading),
    (_q, fake_queue),
    (_time, fake_time),
    (concurrent, fake_concurrent),
    (_cf, fake_cf),
    (_time.perf_counter, _fake_time),
    (_time.monotonic, _fake_time),
    (_time.sleep, _sleep),
    (_q.Queue, SQueue),
    (_q.SimpleQueue, SSimpleQueue),
    (_th.Thread, SThread),
    (_th.Lock, SLock),
    (_th.RLock, SRLock),
    (_th.Event, SEvent),
    (_th.Condition, SCondition),
    (_cf.Future, SFuture),
]


_PATCH_DEPTH = 0


@contextlib.contextmanager
def patched(modules, deque_in=('mpservice._queues',), extra=(), tracked=()):
    """Replace, in the given (already imported) mpservice modules, every module-level reference
    to a stdlib concurrency primitive by its stub, and re-base mpservice's Thread / executor
    subclasses onto the stub base classes."""
    import importlib

    global _PATCH_DEPTH
    if _PATCH_DEPTH > 0:
        # already patched (replay of a counterexample from inside the analysis): nothing to do
        _PATCH_DEPTH += 1
        try:
            yield
        finally:
            _PATCH_DEPTH -= 1
        return
    _PATCH_DEPTH += 1
    undo = []
    undo_attrs = []
    bases = []
    try:
        for mn in modules:
            m = importlib.import_module(mn)
            for k, v in list(m.__dict__.items()):
                for real, fake in _REPLACE:
                    if v is real:
                        undo.append((m, k, v))
                        setattr(m, k, fake)
                        break
                else:
                    if v is collections.deque and mn in deque_in:
                        undo.append((m, k, v))
                        setattr(m, k, SDeque)
        import mpservice.threading as mt
        import mpservice.concurrent.futures as mcf

        for cls, base in ((mt.Thread, SThread), (mcf.ThreadPoolExecutor, SExecutor),
                          (mcf.ProcessPoolExecutor, SExecutor)):
            bases.append((cls, cls.__bases__))
            cls.__bases__ = (base,)
        for m, k, v in extra:
            undo.append((m, k, getattr(m, k, None)))
            setattr(m, k, v)
        # Thread._future_ is written by the thread itself and read by joiners: a shared cell
        undo_attrs = [tracked_attrs(mt.Thread, ['_future_'])]
        for cls, names in tracked:
            undo_attrs.append(tracked_attrs(cls, names))
        yield
    finally:
        _PATCH_DEPTH -= 1
        for u in undo_attrs:
            u()
        for m, k, v in reversed(undo):
            setattr(m, k, v)
        for cls, b in bases:
            cls.__bases__ = b
