"""Engine A: CrossHair (z3-backed symbolic execution of CPython) over harness functions that call the
real mpservice code with a stubbed environment.

A harness is a module-level function with a PEP-316 docstring (`pre:` = bounds and documented
preconditions, `post: _`) returning the oracle's verdict.  For every harness the driver runs
  * the condition itself:   `crosshair check --report_all --per_condition_timeout T module.func`
      "Confirmed over all paths"  -> holds within the `pre:` bounds
      counterexample              -> re-run concretely in a fresh interpreter WITHOUT CrossHair; only a
                                     reproduced one is a violation
      anything else               -> inconclusive
  * its reachability twin: the same body with `post: not _`; it must come back *violated* (some input
    satisfies the preconditions and runs to a passing verdict), otherwise the harness is vacuous.
"""
from __future__ import annotations

import ast
import hashlib
import importlib
import inspect
import json
import os
import re
import subprocess
import sys
import textwrap
import time

VERIF = os.path.dirname(os.path.dirname(os.path.abspath(__file__)))
PY = next((p_ for p_ in (os.path.join(VERIF, '.venv', 'bin', 'python'), '/verif/.venv/bin/python')
           if os.path.exists(p_)), '/verif/.venv/bin/python')
SCRATCH = os.path.join(VERIF, '.scratch')
REPLAY_DIR = os.environ.get('VERIF_REPLAY_DIR', os.path.join(VERIF, 'replays'))


def _env():
    env = dict(os.environ)
    env['PYTHONPATH'] = os.pathsep.join([VERIF, SCRATCH, env.get('PYTHONPATH', '')])
    env['PYTHONHASHSEED'] = '0'
    return env


def crosshair(target, timeout_s, extra=()):
    cmd = [PY, '-m', 'crosshair', 'check', '--report_all', '--per_condition_timeout', str(timeout_s), *extra, target]
    t0 = time.time()
    try:
        p = subprocess.run(cmd, cwd=VERIF, env=_env(), capture_output=True, text=True, timeout=timeout_s * 3 + 120)
        out = (p.stdout or '') + (p.stderr or '')
    except subprocess.TimeoutExpired:
        out = 'TIMEOUT'
    return out, time.time() - t0


def classify(out):
    """-> (verdict, detail) with verdict in confirmed / counterexample / inconclusive."""
    lines = [l for l in out.splitlines() if l.strip()]
    for l in lines:
        if 'error:' in l:
            m = re.search(r'error: (.*)$', l)
            return 'counterexample', m.group(1) if m else l
    for l in lines:
        if 'Confirmed over all paths' in l:
            return 'confirmed', l.split('info:')[-1].strip()
    return 'inconclusive', (lines[-1] if lines else 'no output')[:400]


def call_of(detail):
    """Extract the call expression from a CrossHair counterexample message."""
    m = re.search(r'when calling (.*?)(?: \(which (?:returns|raises) .*\))?$', detail)
    return m.group(1) if m else None


def replay_call(module, call):
    """Run `call` (e.g. check_x(1, [2, 3])) in a fresh interpreter without CrossHair.
    Returns (reproduced, observed)."""
    code = textwrap.dedent(f'''
        import sys, json
        import {module} as M
        try:
            r = eval({call!r}, dict(vars(M)))
            print('REPLAY ' + json.dumps({{'returned': repr(r), 'ok': bool(r)}}))
        except BaseException as e:
            print('REPLAY ' + json.dumps({{'raised': type(e).__name__ + ': ' + str(e), 'ok': False}}))
    ''')
    p = subprocess.run([PY, '-c', code], cwd=VERIF, env=_env(), capture_output=True, text=True, timeout=300)
    for l in p.stdout.splitlines():
        if l.startswith('REPLAY '):
            d = json.loads(l[7:])
            return (not d['ok']), d
    return False, {'error': (p.stderr or p.stdout)[-400:]}


def make_twin(module, func):
    """Write a twin module whose function has the same preconditions and `post: not _`."""
    os.makedirs(SCRATCH, exist_ok=True)
    M = importlib.import_module(module)
    f = getattr(M, func)
    sig = inspect.signature(f)
    doc = inspect.getdoc(f) or ''
    pres = [l for l in doc.splitlines() if l.strip().startswith('pre:')]
    pres += [l.strip().replace('twin-pre:', 'pre:', 1) for l in doc.splitlines() if l.strip().startswith('twin-pre:')]
    raises = [l for l in doc.splitlines() if l.strip().startswith('raises:')]
    name = f'twin_{module.replace(".", "_")}_{func}'
    params = ', '.join(str(p) for p in sig.parameters.values())
    args = ', '.join(sig.parameters)
    src = f'from typing import *\nfrom {module} import *\nimport {module} as _M\n\n\n'
    src += f'def {func}_twin({params}) -> bool:\n    """\n'
    for l in pres + raises:
        src += f'    {l.strip()}\n'
    src += '    post: not _\n    """\n'
    src += f'    return _M.{func}({args})\n'
    path = os.path.join(SCRATCH, name + '.py')
    with open(path, 'w') as fh:
        fh.write(src)
    return name, f'{func}_twin'


def run_condition(spec):
    """spec: {module, func, timeout, property, known?}.  Returns a result dict."""
    module, func = spec['module'], spec['func']
    T = spec.get('timeout', 60)
    res = {'spec': {'module': module, 'func': func, 'timeout': T}, 'queries': [], 'replays': 0, 'replays_ok': 0,
           'known_hits': []}
    t0 = time.time()
    out, dt = crosshair(f'{module}.{func}', T)
    verdict, detail = classify(out)
    res['queries'].append({'query': f'{module}.{func}', 'result': verdict, 'detail': detail[:300], 'solver_s': round(dt, 1)})
    res['solver_s'] = round(dt, 1)
    if verdict == 'counterexample':
        call = call_of(detail)
        res['counterexample'] = detail
        if call is None:
            res.update(verdict='inconclusive', reason=f'cannot parse counterexample: {detail}')
            return res
        rep, obs = replay_call(module, call)
        res['replays'] += 1
        if rep:
            res['replays_ok'] += 1
            # known finding?
            for e in spec.get('known', []):
                if e.get('func') == func and re.search(e.get('call_regex', '.*'), call):
                    res['known_hits'].append({'id': e.get('id'), 'what': e.get('what'), 'call': call, 'observed': obs})
                    res.update(verdict='holds', reason='only a listed known finding was found', known_only=True)
                    return res
            os.makedirs(REPLAY_DIR, exist_ok=True)
            body = {'property': spec.get('property'), 'engine': 'A', 'module': module, 'call': call,
                    'message': detail, 'observed': obs}
            h = hashlib.sha1(json.dumps(body, sort_keys=True).encode()).hexdigest()[:10]
            path = os.path.join(REPLAY_DIR, f"{spec.get('property', 'X')}-{h}.json")
            json.dump(body, open(path, 'w'), indent=1)
            res.update(verdict='violation', replay_file=path,
                       cex={'kind': 'counterexample', 'inputs': call, 'observed': obs, 'where': {'harness': f'{module}.{func}'}})
        else:
            res.update(verdict='inconclusive', reason=f'CrossHair counterexample {call} did not reproduce concretely: {obs}')
        return res
    if verdict != 'confirmed':
        res.update(verdict='inconclusive', reason=f'{module}.{func}: {detail}')
        return res
    # vacuity twin
    tm, tf = make_twin(module, func)
    out2, dt2 = crosshair(f'{tm}.{tf}', min(T, 60))
    v2, d2 = classify(out2)
    res['queries'].append({'query': f'twin of {func}', 'result': v2, 'detail': d2[:200], 'solver_s': round(dt2, 1)})
    res['solver_s'] = round(dt + dt2, 1)
    if v2 != 'counterexample':
        res.update(verdict='inconclusive', reason=f'vacuity twin of {func} was not refuted ({v2}: {d2[:200]})')
        return res
    call = call_of(d2)
    res['witness_sample'] = {'passing_input': call}
    if call:
        # the witness input is run concretely on the real code as well (trace validation)
        rep, obs = replay_call(module, call.replace(f'{tf}(', f'{func}(', 1))
        res['replays'] += 1
        if not rep and obs.get('ok'):
            res['replays_ok'] += 1
    res['verdict'] = 'holds'
    res['wall_s'] = round(time.time() - t0, 1)
    return res


def conditions_of(module, prefix='check_'):
    M = importlib.import_module(module)
    return [n for n, f in vars(M).items() if n.startswith(prefix) and callable(f) and getattr(f, '__module__', None) == module]


def replay_file(path):
    body = json.load(open(path))
    rep, obs = replay_call(body['module'], body['call'])
    print(json.dumps({'replay': path, 'call': body['call'], 'reproduced': rep, 'observed': obs}, indent=1))
    return 0 if rep else 3
