#!/bin/bash
# Idempotent bootstrap of /verif/.venv: an overlay on /venv (which has mpservice editable-installed
# from /repo/src) plus crosshair-tool and z3-solver from the offline wheelhouse.
set -e
V=/verif/.venv
if [ ! -x "$V/bin/python" ] || [ ! -f "$V/.ok" ]; then
  rm -rf "$V"
  /venv/bin/python -m venv "$V"
  SP=$("$V/bin/python" -c 'import sysconfig;print(sysconfig.get_paths()["purelib"])')
  echo "import site; site.addsitedir('/venv/lib/python3.12/site-packages')" > "$SP/_overlay.pth"
  PIP_NO_INDEX=1 "$V/bin/pip" install -q --no-index --find-links /opt/veriftools/wheels \
      crosshair-tool z3-solver jsonschema >/dev/null
  "$V/bin/python" -c 'import crosshair, z3, mpservice, jsonschema' 
  touch "$V/.ok"
fi
