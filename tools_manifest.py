"""Regenerates MANIFEST.json from the table below (run: python3 tools_manifest.py)."""
import json

props = [json.loads(l) for l in open('/verif/properties.jsonl')]
B_NOTE = ('Trusted base: the stub contracts of the stdlib primitives (engine_b/sem.py: Lock, deque/Queue, Event, Future, '
          'Thread, executor, dict, cell; threading.Condition is CPython\'s own code re-bound onto the stub Lock/deque), '
          'Lipton fusion of lock-protected blocks, z3. Claims are bounded by the listed configurations (N, sizes, '
          'threads); inside a configuration the inductive invariant covers every schedule, input and run length.')
B_TECH = ('thread-modular symbolic execution of the real code on symbolic primitives + SMT inductive-invariant check '
          '(z3: initiation / consecution / safety / progress over a learned state set), counterexamples replayed on real primitives')
A_NOTE = ('Trusted base: CrossHair 0.0.110 + z3 (its models of int/list/str and its path exploration: "Confirmed over all paths" '
          'is taken as exhaustive within the `pre:` bounds), the stubs of the environment written in each harness, and the reference '
          'oracle in the harness. Counterexamples are re-run concretely without CrossHair before being reported.')
A_TECH = 'CrossHair symbolic execution (z3) of the real functions over symbolic inputs within `pre:` bounds; reachability twin per condition; concrete replay of counterexamples'
CHECKS = {
    'C20': ('B', 'model_checking', 'Whether a record is lost depends on how the child\'s queue feeder, the parent\'s collector, its feeder and its logger thread interleave around the end of the child, and whether the child can exit depends on the pipe filling up: processes are modelled as threads and multiprocessing.Queue by its documented contract (per-process buffer + feeder, shared bounded pipe), the real forwarding code runs on top, and the solver covers every interleaving, ending, record count and level for the listed sizes; counterexamples are confirmed on real processes.', '3 C20'),
    'C13': ('A', 'other', 'Premature destruction or a leak depends on the order of increments and decrements across pickling, rebuilding, nesting and finalizers; every operation skeleton (with symbolic operands) is run on the real reference-counting code over an in-process transport and compared with a reference-count model after every step. MemoryBlock/shared memory and real process exit are outside.', '3 C13'),
    'C14': ('A', 'other', 'Equivalence with a local object over all 2-operation (3 in thorough) sequences of list and dict operations through two proxies, including the failing ones, plus managed() return values, Value and Namespace, on the real dispatch code with real pickling.', '3 C14'),
    'C09': ('B', 'model_checking', 'The real batching threads (collector, consumer, the SingleLane between them, the shared read lock and the batch-get event) run inside a real ThreadServlet; an instrumented call() asserts well-formed batches and records their composition, lone-request service is the progress query; exact release timing is checked by CrossHair units under a virtual clock. Bounds: batch_size 2, <= 2 requests.', '3 C09'),
    'C16': ('B', 'model_checking', 'PARTIAL (async_fifo_stream and AsyncParmapperAsync; AsyncServer outside): the same sequential-meaning oracle as C01 is checked on a model of the asyncio loop (tasks = threads, loop = one mutex given up only at suspension points), so every completion order of the worker tasks and every preprocessor-failure position is covered; counterexamples are confirmed on the real event loop.', '3 C16'),
    'C04': ('B', 'model_checking', 'PARTIAL (plain and sequential thread servlets, no batching/ensemble): which request fails at which site is a symbolic input per request and the callers run concurrently, so the solver covers every failing subset and every interleaving of the short-circuited errors with regular results.', '3 C04'),
    'C11': ('B', 'model_checking', 'Which worker (stage, index) fails to initialise is symbolic; a thread left behind by a failed start or by exit is a deadlock/trap state of the product, so all-or-nothing start and complete stop are the safety and progress queries over the real start/stop protocol (thread servlets; processes and pipes outside).', '3 C11'),
    'C18': ('B', 'model_checking', 'PARTIAL: (a) record framing with symbolic payload bytes (newlines, spaces, header look-alikes) and the named-pipe path wiring by CrossHair; (b) the server\'s connection handler (receiving task, responding task, handler tasks) on a model of the asyncio loop with symbolic handler behaviour: one response per request, in order, with the request\'s id and the handler\'s own value or exception, for every interleaving of the tasks; counterexamples confirmed on the real event loop over a unix socket. The client\'s matching of responses to requests over several connections and the OS transports themselves are outside (DESIGN.md section 4).', '3 C18'),
    'C12': ('A', 'other', 'The ways a target can end times the kill phase times the signal times the first accessor form a table no test walks; the solver walks all of it on the real reporting code with the OS facts stubbed, and the future-resolved condition is what makes wait/as_completed terminate.', '3 C12'),
    'C15': ('A', 'other', 'Loss of the traceback on a later hop or of args for exceptions with non-trivial constructors shows only for particular class/hop/re-raise combinations; all combinations of the catalogue are exhausted by the solver over real pickle round trips.', '3 C15'),
    'C03': ('A', 'other', 'Operator interactions form a program space; the check enumerates the operator skeletons and leaves elements and parameters symbolic, so boundary sizes (1, len, len+1), empty batches and parameter combinations are covered by the solver rather than by examples.', '3 C03'),
    'C19': ('A', 'other', 'Timing rules can only be checked exactly under a virtual clock; arrival gaps, batch size and wait are symbolic, and the virtual time of every yield is compared with the documented rule.', '3 C19'),
    'C17': ('B', 'model_checking', 'Loss, duplication, an unfinished consumer or a leaked end marker need particular interleavings of the token-queue operations of several consumers; the solver covers all of them for the listed numbers of suppliers, consumers, items and rounds (one listed known finding excluded by its signature).', '3 C17'),
    'C10': ('B', 'model_checking', 'Every TeeX field, head.value and the source position are symbolic cells, so the solver covers preemption between any two lines of the fork step; wedges (deadlock, spin trap on a leaked lock), lost or reordered elements and wrong endings are shown unreachable for the listed sizes and every source failure position.', '3 C10'),
    'C02': ('B', 'model_checking', 'For the listed caller/stream configurations the solver proves that every caller of the real Server.call / stream receives the result of its own request (or its own failure) under every schedule of callers, servlet stub, gather and notify threads: lost or crossed responses need a result to arrive inside a window between two statements.', '3 C02'),
    'C06': ('B', 'model_checking', 'len(ledger) <= capacity is a state invariant asserted on every state of the inductive invariant of the real _enqueue/_gather_output code with 2-3 racing callers; slot return is checked at quiescence.', '3 C06'),
    'C07': ('B', 'model_checking', 'A caller deadline may expire at any step relative to the gather thread; the solver proves the gather thread never dies, every other caller is answered and __exit__ returns, for the listed configurations.', '3 C07'),
    'C01': ('B', 'model_checking', 'For every listed (N, concurrency, capacity, flags) configuration the solver proves that no schedule, '
            'completion order or failing subset makes the real fifo_stream/Parmapper deliver an output that differs from the '
            'sequential meaning, deadlock or get trapped; ordering/pairing faults need specific completion orders, which is '
            'exactly what the symbolic schedule ranges over.', '3 C01'),
    'C05': ('B', 'model_checking', 'Deadlock / trap / leaked-thread / wrong-failure states of the real Buffer and fifo_stream code are shown '
            'unreachable for every stop position, failure position, failure site and failure kind within the listed sizes; '
            'hangs are schedule- and size-dependent and invisible to tests.', '3 C05'),
    'C08': ('B', 'model_checking', 'The look-ahead and concurrency bounds are state invariants asserted on every state of the inductive '
            'invariant, with counters in the symbolic state; an overshoot needs a particular speed ratio, i.e. a schedule.', '3 C08'),
}
NA = {}
checks = []
for pid, (eng, cat, text, ref) in CHECKS.items():
    checks.append({
        'property_id': pid,
        'quick_cmd': f'bin/check {pid} --tier quick',
        'thorough_cmd': f'bin/check {pid} --tier thorough',
        'evidence_file': f'/verif/evidence/{pid}.json',
        'replay_cmd_template': f'bin/check {pid} --replay {{path}}',
        'engine': 'engine_b' if eng == 'B' else 'engine_a',
        'level_claimed': {'category': cat, 'text': text, 'design_ref': f'DESIGN.md section {ref}'},
        'level_note': B_NOTE if eng == 'B' else A_NOTE,
        'technique': B_TECH if eng == 'B' else A_TECH,
    })
m = {
    'version': 1,
    'setup_cmd': '/verif/env.sh',
    'hooks': {'guard': 'MPSERVICE_VERIF',
              'enable': 'no source hooks: the checks patch module globals of the imported mpservice modules at run time and read /repo/src directly',
              'baseline_off_cmd': 'cd /repo && /venv/bin/python -m pytest -ra -q -p no:cacheprovider --timeout=900 --continue-on-collection-errors',
              'source_commits': [], 'add_only': True},
    'engines': [
        {'name': 'engine_b', 'path': '/verif/engine_b', 'serves_properties': [p for p, v in CHECKS.items() if v[0] == 'B'],
         'kind_free_text': 'thread-modular symbolic execution of the real Python code on symbolic concurrency primitives; product decided by z3 (inductive invariant; bounded unrolling kept for cross-checks); replay on real primitives'},
        {'name': 'engine_a', 'path': '/verif/engine_a', 'serves_properties': [p for p, v in CHECKS.items() if v[0] == 'A'],
         'kind_free_text': 'CrossHair (z3-backed symbolic execution of CPython) harnesses over the real functions with stubbed environment'},
    ],
    'checks': checks,
    'notes': 'See DESIGN.md. Exit codes: 0 holds within bounds, 1 VIOLATION (replayed on the real code), 2 INCONCLUSIVE.',
    'not_applicable': [{'property_id': p['id'], 'reason': NA.get(p['id'], 'check not built yet in this round (see DESIGN.md section 4)')}
                       for p in props if p['id'] not in CHECKS],
}
json.dump(m, open('/verif/MANIFEST.json', 'w'), indent=1)
print(len(checks), 'checks')
